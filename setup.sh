#!/bin/sh
# Run once after a fresh restore, offline: build the replay/concretisation crate against /repo and warm Verus.
set -e
cd "$(dirname "$0")"
export CARGO_NET_OFFLINE=true
mkdir -p .build evidence replay/out
RUSTFLAGS="--cfg fancy_regex_verif" cargo build --release --offline --manifest-path replay/Cargo.toml --target-dir .build/target 2>&1 | tail -2
python3 tools/build_unit.py contracts/state.vrs -o .build/state.rs >/dev/null
( cd .build && verus state.rs >/dev/null 2>&1 ) || true
echo "setup done"
