//! Family `expect`: a single (pattern, text) with the span the reference semantics gives (derived by hand from the property
//! statement, recorded in known-findings.txt).  Used to replay known findings; it has no search space of its own.
use crate::{Budget, Family};
use fancy_regex::Regex;
use serde_json::Value;
use std::panic::{catch_unwind, AssertUnwindSafe};

pub struct Expect;

impl Family for Expect {
    fn search(&self, _budget: &mut Budget, _seed: u64) -> Option<(Value, String)> {
        None
    }
    fn run(&self, w: &Value) -> Option<String> {
        let pattern = w["pattern"].as_str()?.to_string();
        let text = w["text"].as_str()?.to_string();
        let expect: Option<(usize, usize)> = w["expect"].as_array().map(|a| (a[0].as_u64().unwrap() as usize, a[1].as_u64().unwrap() as usize));
        let got = catch_unwind(AssertUnwindSafe(|| Regex::new(&pattern).map(|re| re.find(&text).map(|m| m.map(|m| (m.start(), m.end()))))));
        match got {
            Err(_) => Some("panic".into()),
            Ok(Err(e)) => Some(format!("does not compile: {:?}", e)),
            Ok(Ok(Err(e))) => Some(format!("search error {:?}", e)),
            Ok(Ok(Ok(g))) => {
                if g != expect {
                    Some(format!("find gives {:?}, reference semantics gives {:?}", g, expect))
                } else {
                    None
                }
            }
        }
    }
}
