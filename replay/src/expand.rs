//! Family `expand` (bounded, C12): Expander::{expansion, escape, check} and Captures::expand of the real crate against an
//! independent rendering of the documented template syntax, over all templates up to a length bound on the property's alphabet.
use crate::{Budget, Family};
use fancy_regex::{Captures, Expander, Regex};
use serde_json::{json, Value};
use std::panic::{catch_unwind, AssertUnwindSafe};

pub struct Expand;

const ALPHA: [&str; 16] = ["$", "{", "}", "\\", "g", "<", ">", "0", "1", "9", "x", "_", "é", " ", "-", "²"];

fn is_id(c: char) -> bool {
    c.is_alphanumeric() || c == '_'
}

#[derive(Debug, PartialEq)]
enum Ref {
    Name(String),
    Num(usize),
}

/// the documented interpretation: list of literal chunks and references
fn scan(template: &str, sub: char, open: &str, close: &str, undelimited: bool) -> Vec<Result<char, Ref>> {
    let mut out = vec![];
    let cs: Vec<char> = template.chars().collect();
    let mut i = 0;
    while i < cs.len() {
        let c = cs[i];
        if c != sub {
            out.push(Ok(c));
            i += 1;
            continue;
        }
        let tail: String = cs[i + 1..].iter().collect();
        if tail.starts_with(sub) {
            out.push(Ok(sub));
            i += 2;
            continue;
        }
        // ${name} / \g<name>
        if let Some(rest) = tail.strip_prefix(open) {
            let id: String = rest.chars().take_while(|&c| is_id(c)).collect();
            if !id.is_empty() && rest[id.len()..].starts_with(close) {
                i += 1 + open.chars().count() + id.chars().count() + close.chars().count();
                out.push(Err(Ref::Name(id)));
                continue;
            }
        }
        // $name : the longest possible identifier
        if undelimited {
            let id: String = tail.chars().take_while(|&c| is_id(c)).collect();
            if !id.is_empty() {
                i += 1 + id.chars().count();
                out.push(Err(Ref::Name(id)));
                continue;
            }
        }
        // \N
        let digits: String = tail.chars().take_while(|c| c.is_ascii_digit()).collect();
        if !digits.is_empty() {
            if let Ok(n) = digits.parse::<usize>() {
                i += 1 + digits.len();
                out.push(Err(Ref::Num(n)));
                continue;
            }
        }
        // anything else is copied verbatim
        out.push(Ok(sub));
        i += 1;
    }
    out
}

fn group_text<'t>(caps: &Captures<'t>, r: &Ref) -> Option<&'t str> {
    match r {
        Ref::Num(n) => caps.get(*n).map(|m| m.as_str()),
        Ref::Name(name) => caps.name(name).map(|m| m.as_str()).or_else(|| name.parse::<usize>().ok().and_then(|n| caps.get(n)).map(|m| m.as_str())),
    }
}

fn ref_expand(template: &str, python: bool, caps: &Captures<'_>) -> String {
    let items = if python { scan(template, '\\', "g<", ">", false) } else { scan(template, '$', "{", "}", true) };
    let mut s = String::new();
    for it in items {
        match it {
            Ok(c) => s.push(c),
            Err(r) => {
                if let Some(t) = group_text(caps, &r) {
                    s.push_str(t)
                }
            }
        }
    }
    s
}

fn setups() -> Vec<(Regex, &'static str)> {
    vec![
        (Regex::new(r"(?<x>a)(b)?(?<_1>c)?(?=d)").unwrap(), "zacd"),
        (Regex::new(r"(a)(é)?(b)(?!x)").unwrap(), "aéb"),
        (Regex::new(r"(?<g>a)(?<x1>b)").unwrap(), "ab"),
        // a group whose NAME is a number different from its index: `$1` means the group named 1
        (Regex::new(r"(a)(?<1>b)(?<x²>c)?").unwrap(), "ab"),
    ]
}

fn check(template: &str, st: &[(Regex, &'static str)]) -> Option<String> {
    match catch_unwind(AssertUnwindSafe(|| check_inner(template, st))) {
        Ok(x) => x,
        Err(_) => Some("panic in the real crate".into()),
    }
}

struct ShortWriter(Vec<u8>);
impl std::io::Write for ShortWriter {
    fn write(&mut self, buf: &[u8]) -> std::io::Result<usize> {
        let n = buf.len().min(3);
        self.0.extend_from_slice(&buf[..n]);
        Ok(n)
    }
    fn flush(&mut self) -> std::io::Result<()> {
        Ok(())
    }
}

/// templates outside the exhaustive space: references with numbers around 2^32 and 2^64
fn long_templates() -> Vec<&'static str> {
    vec!["<\\4294967296>", "<\\9999999999>", "<$4294967296>", "<${4294967296}>", "<\\g<4294967296>>", "<\\18446744073709551615>", "<\\18446744073709551616>", "<${18446744073709551616}>",
         "<\\4294967297x>", "<$1$4294967295>"]
}

fn check_inner(template: &str, st: &[(Regex, &'static str)]) -> Option<String> {
    for (re, text) in st.iter() {
        let caps = re.captures(text).unwrap().unwrap();
        for python in [false, true] {
            let ex = if python { Expander::python() } else { Expander::default() };
            let want = ref_expand(template, python, &caps);
            let got = ex.expansion(template, &caps);
            if got != want {
                return Some(format!("{} expander, regex {:?}: expansion {:?}, documented syntax gives {:?}", if python { "python" } else { "default" }, re.as_str(), got, want));
            }
            // write_expansion into a sink that accepts at most 3 bytes per write() call (pipes and sockets do short writes): the
            // whole expansion must still arrive
            let mut sink = ShortWriter(Vec::new());
            if ex.write_expansion(&mut sink, template, &caps).is_ok() && sink.0 != want.as_bytes() {
                return Some(format!("write_expansion into a short-writing sink gives {:?}, expansion() gives {:?}", String::from_utf8_lossy(&sink.0), want));
            }
            let mut dst = String::from("<");
            ex.append_expansion(&mut dst, template, &caps);
            if dst != format!("<{}", want) {
                return Some(format!("append_expansion gives {:?}", dst));
            }
            // the fourth entry point: the byte-vector form must write exactly the bytes of the string form (added after seeded/C12-18)
            let mut vdst: Vec<u8> = vec![b'<'];
            ex.write_expansion_vec(&mut vdst, template, &caps);
            if vdst != format!("<{}", want).as_bytes() {
                return Some(format!("write_expansion_vec gives {:?}, expansion() gives {:?}", String::from_utf8_lossy(&vdst), want));
            }
            // escape round trip
            let esc = ex.escape(template);
            let back = ex.expansion(&esc, &caps);
            if back != template {
                return Some(format!("{} expander: expansion(escape({:?})) = {:?}", if python { "python" } else { "default" }, template, back));
            }
            // check accepts only templates all of whose references name existing groups
            if ex.check(template, &re).is_ok() {
                let items = if python { scan(template, '\\', "g<", ">", false) } else { scan(template, '$', "{", "}", true) };
                let names: Vec<Option<&str>> = re.capture_names().collect();
                for it in items {
                    if let Err(r) = it {
                        let exists = match &r {
                            Ref::Num(n) => *n < re.captures_len(),
                            Ref::Name(nm) => names.iter().any(|x| *x == Some(nm.as_str())) || nm.parse::<usize>().map_or(false, |n| n < re.captures_len()),
                        };
                        if !exists {
                            return Some(format!("check accepted {:?} although {:?} names no group of {:?}", template, r, re.as_str()));
                        }
                    }
                }
            }
        }
        // Captures::expand is the default expander
        let mut d = String::new();
        caps.expand(template, &mut d);
        if d != ref_expand(template, false, &caps) {
            return Some(format!("Captures::expand gives {:?}", d));
        }
    }
    None
}

impl Family for Expand {
    fn search(&self, budget: &mut Budget, _seed: u64) -> Option<(Value, String)> {
        let st = setups();
        for t in long_templates() {
            budget.evals += 1;
            if let Some(d) = check(t, &st) {
                return Some((json!({"template": t}), d));
            }
        }
        for len in 0..=6usize {
            let mut idx = vec![0usize; len];
            loop {
                let t: String = idx.iter().map(|&i| ALPHA[i]).collect();
                budget.evals += 1;
                if let Some(d) = check(&t, &st) {
                    return Some((json!({"template": t}), d));
                }
                if budget.evals % 256 == 0 && budget.expired() {
                    return None;
                }
                let mut p = len;
                let mut done = len == 0;
                while !done {
                    if p == 0 {
                        done = true;
                        break;
                    }
                    p -= 1;
                    idx[p] += 1;
                    if idx[p] < ALPHA.len() {
                        break;
                    }
                    idx[p] = 0;
                }
                if done {
                    break;
                }
            }
        }
        None
    }
    fn run(&self, w: &Value) -> Option<String> {
        check(w["template"].as_str()?, &setups())
    }
}
