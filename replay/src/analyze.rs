//! Family `analyze`: the real analysis (Info facts read through the cfg-guarded accessors) against an executable rendering of the
//! spec match-length relation `len_of` of contracts/analyze.vrs, enumerated up to a length bound.
use crate::corpus;
use crate::{Budget, Family};
use fancy_regex::internal::analyze;
use fancy_regex::Expr;
use serde_json::{json, Value};
use std::collections::BTreeSet;
use std::panic::{catch_unwind, AssertUnwindSafe};

pub struct Analyze;

const B: usize = 14; // lengths above B are collapsed into "B+1 or more"

fn cap(x: usize) -> usize {
    x.min(B + 1)
}
fn sum_sets(a: &BTreeSet<usize>, b: &BTreeSet<usize>) -> BTreeSet<usize> {
    let mut r = BTreeSet::new();
    for x in a {
        for y in b {
            r.insert(cap(x + y));
        }
    }
    r
}

/// set of lengths e can match (executable len_of), values > B collapsed to B+1; None = any length (Backref)
fn lens(e: &Expr) -> BTreeSet<usize> {
    let one = |x: usize| -> BTreeSet<usize> { [cap(x)].into_iter().collect() };
    match e {
        Expr::Empty | Expr::Assertion(_) | Expr::LookAround(_, _) | Expr::KeepOut | Expr::ContinueFromPreviousMatchEnd | Expr::BackrefExistsCondition(_) => one(0),
        Expr::Any { .. } => one(1),
        Expr::Literal { val, .. } => one(val.chars().count()),
        Expr::Delegate { size, .. } => one(*size),
        Expr::Concat(v) => {
            let mut acc = one(0);
            for c in v {
                acc = sum_sets(&acc, &lens(c));
            }
            acc
        }
        Expr::Alt(v) => v.iter().flat_map(|c| lens(c)).collect(),
        Expr::Group(c) | Expr::AtomicGroup(c) => lens(c),
        Expr::Repeat { child, lo, hi, .. } => {
            let cl = lens(child);
            let mut acc = one(0);
            let mut out = BTreeSet::new();
            let mut k = 0usize;
            // `{lo,hi}` with lo > hi: the VM runs the body exactly hi times
            let lo = &(*lo).min(*hi);
            loop {
                if k >= *lo {
                    out.extend(acc.iter().cloned());
                }
                if k >= *hi || k > lo.saturating_add(B + 2) {
                    break;
                }
                let next = sum_sets(&acc, &cl);
                k += 1;
                // fast-forward over huge lower bounds once the sets are stable
                if next == acc && k < *lo {
                    k = *lo;
                }
                acc = next;
            }
            out
        }
        Expr::Backref(_) | Expr::SubroutineCall(_) => (0..=B + 1).collect(),
        Expr::Conditional { condition, true_branch, false_branch } => {
            let mut r = sum_sets(&lens(condition), &lens(true_branch));
            r.extend(lens(false_branch));
            r
        }
    }
}

fn check_info(info: &fancy_regex::internal::Info<'_>, path: &mut Vec<usize>) -> Option<String> {
    let (min_size, const_size, _hard, _sg, _eg) = info.verif_facts();
    let e = info.verif_expr();
    let ls = lens(e);
    if let Some(&lo) = ls.iter().next() {
        if lo <= B && min_size > lo {
            return Some(format!("node {:?} {:?}: computed min_size {} but it can match {} characters", path, e, min_size, lo));
        }
        if const_size {
            let small: Vec<_> = ls.iter().filter(|&&x| x <= B).collect();
            if small.len() > 1 || (small.len() == 1 && *small[0] != min_size) {
                return Some(format!("node {:?} {:?}: judged constant size {} but it can match lengths {:?}", path, e, min_size, ls));
            }
        }
    }
    for (i, c) in info.verif_children().iter().enumerate() {
        path.push(i);
        if let Some(d) = check_info(c, path) {
            return Some(d);
        }
        path.pop();
    }
    None
}

fn check(pattern: &str) -> Option<String> {
    match catch_unwind(AssertUnwindSafe(|| {
        let tree = match Expr::parse_tree(pattern) {
            Ok(t) => t,
            Err(_) => return None,
        };
        let info = match analyze(&tree) {
            Ok(i) => i,
            Err(_) => return None,
        };
        check_info(&info, &mut vec![])
    })) {
        Ok(x) => x,
        Err(_) => Some("panic in parse/analyze".to_string()),
    }
}

fn grammar() -> Vec<String> {
    let atoms = ["a", "bc", ".", "", r"\b", "(?=a)", "(?<=b)", r"\1", "[ab]", r"\K"];
    let mut v: Vec<String> = atoms.iter().map(|s| s.to_string()).collect();
    let mut lvl = v.clone();
    for _ in 0..2 {
        let mut next = vec![];
        for a in lvl.iter().take(14) {
            for q in ["*", "+", "?", "{2}", "{2,3}", "{0}", "{1,0}", "{3,2}", "{18446744073709551615}", "{9223372036854775808}"] {
                next.push(format!("(?:{}){}", a, q));
            }
            next.push(format!("({})", a));
            next.push(format!("(?>{})", a));
            for b in atoms.iter().take(6) {
                next.push(format!("(?:{}|{})", a, b));
                next.push(format!("(?:{}|{})", b, a));
                next.push(format!("{}{}", a, b));
                next.push(format!("(?({}){}|{})", b, a, b));
                next.push(format!("(?({}){})", a, b));
            }
        }
        v.extend(next.iter().cloned());
        lvl = next;
    }
    let mut wrapped: Vec<String> = vec![];
    for p in v.iter() {
        wrapped.push(format!("(x){}", p));
        wrapped.push(format!("(x)(?<={})", p));
    }
    wrapped
}

impl Family for Analyze {
    fn search(&self, budget: &mut Budget, _seed: u64) -> Option<(Value, String)> {
        let mut pats: Vec<String> = corpus::patterns().iter().map(|s| s.to_string()).collect();
        pats.extend(grammar());
        for p in &pats {
            budget.evals += 1;
            if let Some(d) = check(p) {
                return Some((json!({"pattern": p}), d));
            }
            if budget.evals % 64 == 0 && budget.expired() {
                return None;
            }
        }
        None
    }
    fn run(&self, w: &Value) -> Option<String> {
        check(w["pattern"].as_str()?)
    }
}
