//! Family `iter`: find_iter / captures_iter / split / splitn of the real crate against the reference iteration model
//! of C08/C09/C10 driven by the REAL single-shot search (through the cfg-guarded hook `verif_find_with_flags`).
use crate::corpus;
use crate::{Budget, Family};
use fancy_regex::{Regex, RegexBuilder};
use serde_json::{json, Value};
use std::panic::{catch_unwind, AssertUnwindSafe};

pub struct Iter;

#[derive(Debug, Clone, PartialEq)]
enum Item {
    Span(usize, usize),
    Fail,
}

fn next_char(text: &str, e: usize) -> usize {
    match text.as_bytes().get(e) {
        None => e + 1,
        Some(&b) => e + if b < 0x80 { 1 } else if b < 0xe0 { 2 } else if b < 0xf0 { 3 } else { 4 },
    }
}

/// the reference iteration model (same text as contracts/iter.vrs::it_step), driven by the real search
fn model_find_iter(re: &Regex, text: &str, max_items: usize) -> Vec<Item> {
    let mut out = vec![];
    let (mut pos, mut last): (usize, Option<usize>) = (0, None);
    while out.len() < max_items {
        if pos > text.len() {
            break;
        }
        let flags = if last.map_or(false, |l| pos > l) { 2 } else { 0 };
        match re.verif_find_with_flags(text, pos, flags) {
            Err(_) => {
                out.push(Item::Fail);
                pos = text.len() + 1;
            }
            Ok(None) => break,
            Ok(Some((s, e))) => {
                if s == e {
                    let p2 = next_char(text, e);
                    if Some(e) == last {
                        if p2 <= pos {
                            break;
                        }
                        pos = p2;
                        continue;
                    }
                    out.push(Item::Span(s, e));
                    pos = p2;
                    last = Some(e);
                } else {
                    out.push(Item::Span(s, e));
                    pos = e;
                    last = Some(e);
                }
            }
        }
    }
    out
}

fn check(pattern: &str, text: &str, limit: Option<usize>) -> Option<String> {
    let r = catch_unwind(AssertUnwindSafe(|| check_inner(pattern, text, limit)));
    match r {
        Ok(x) => x,
        Err(_) => Some("panic in the real crate".to_string()),
    }
}

fn check_inner(pattern: &str, text: &str, limit: Option<usize>) -> Option<String> {
    let re = match limit {
        None => Regex::new(pattern),
        Some(l) => RegexBuilder::new(pattern).backtrack_limit(l).build(),
    };
    let re = match re {
        Ok(r) => r,
        Err(_) => return None,
    };
    let cap = 3 * text.len() + 8;
    let model = model_find_iter(&re, text, cap);
    // find_iter
    let real: Vec<Item> = re.find_iter(text).take(cap + 2).map(|m| match m { Ok(m) => Item::Span(m.start(), m.end()), Err(_) => Item::Fail }).collect();
    if real != model {
        return Some(format!("find_iter {:?} != model {:?}", real, model));
    }
    // C08 statement itself
    let mut prev_end: Option<usize> = None;
    let mut prev: Option<(usize, usize)> = None;
    let mut failed = false;
    for it in &real {
        if failed {
            return Some(format!("item after Err: {:?}", real));
        }
        match it {
            Item::Fail => failed = true,
            Item::Span(s, e) => {
                if !(s <= e && *e <= text.len() && text.is_char_boundary(*s) && text.is_char_boundary(*e)) {
                    return Some(format!("invalid span ({},{}) in {:?}", s, e, real));
                }
                if let Some(pe) = prev_end {
                    if *s < pe {
                        return Some(format!("match ({},{}) starts before previous end {} in {:?}", s, e, pe, real));
                    }
                }
                if let Some(p) = prev {
                    if !((*s, *e) > p) {
                        return Some(format!("not strictly increasing: {:?}", real));
                    }
                }
                prev_end = Some(*e);
                prev = Some((*s, *e));
            }
        }
    }
    // captures_iter spans == find_iter spans (C09)
    let caps: Vec<Item> = re
        .captures_iter(text)
        .take(cap + 2)
        .map(|c| match c {
            Ok(c) => match c.get(0) { Some(m) => Item::Span(m.start(), m.end()), None => Item::Span(usize::MAX, usize::MAX) },
            Err(_) => Item::Fail,
        })
        .collect();
    if caps != real {
        return Some(format!("captures_iter {:?} != find_iter {:?}", caps, real));
    }
    // split (C10): pieces between consecutive matches, remainder once
    let spans: Vec<(usize, usize)> = model.iter().filter_map(|i| if let Item::Span(s, e) = i { Some((*s, *e)) } else { None }).collect();
    let has_fail = model.iter().any(|i| *i == Item::Fail);
    if !has_fail {
        let mut exp: Vec<&str> = vec![];
        let mut ns = 0;
        for &(s, e) in &spans {
            if ns > s {
                return Some(format!("model: piece start {} > match start {}", ns, s));
            }
            exp.push(&text[ns..s]);
            ns = e;
        }
        exp.push(&text[ns..]);
        let got: Vec<String> = re.split(text).take(cap + 4).map(|p| p.map(|s| s.to_string()).unwrap_or("<ERR>".into())).collect();
        let expv: Vec<String> = exp.iter().map(|s| s.to_string()).collect();
        if got != expv {
            return Some(format!("split {:?} != expected {:?}", got, expv));
        }
        // interleaving rebuilds the input
        let mut rebuilt = String::new();
        for (i, p) in got.iter().enumerate() {
            rebuilt.push_str(p);
            if i < spans.len() {
                rebuilt.push_str(&text[spans[i].0..spans[i].1]);
            }
        }
        if rebuilt != text {
            return Some(format!("split pieces + matches rebuild {:?} not {:?}", rebuilt, text));
        }
        for n in 0..=(expv.len() + 1) {
            let gotn: Vec<String> = re.splitn(text, n).take(cap + 4).map(|p| p.map(|s| s.to_string()).unwrap_or("<ERR>".into())).collect();
            let mut expn: Vec<String> = vec![];
            if n > 0 {
                if n > expv.len() {
                    expn = expv.clone();
                } else {
                    expn = expv[..n - 1].to_vec();
                    let start = if n == 1 { 0 } else { spans[n - 2].1 };
                    expn.push(text[start..].to_string());
                }
            }
            if gotn != expn {
                return Some(format!("splitn(n={}) {:?} != expected {:?}", n, gotn, expn));
            }
        }
    }
    None
}

impl Family for Iter {
    fn search(&self, budget: &mut Budget, seed: u64) -> Option<(Value, String)> {
        for limit in [None, Some(1usize), Some(3), Some(30)] {
            for p in corpus::patterns() {
                for t in corpus::texts() {
                    budget.evals += 1;
                    if let Some(d) = check(p, t, limit) {
                        return Some((json!({"pattern": p, "text": t, "backtrack_limit": limit}), d));
                    }
                    if budget.expired() {
                        return None;
                    }
                }
            }
        }
        // the rest of the budget: generated patterns
        let mut index = 0u64;
        while !budget.expired() {
            for p in corpus::generated(seed, index) {
                for t in corpus::small_texts() {
                    for limit in [None, Some(3usize)] {
                        budget.evals += 1;
                        if let Some(d) = check(&p, t, limit) {
                            return Some((json!({"pattern": p, "text": t, "backtrack_limit": limit}), d));
                        }
                    }
                }
            }
            index += 1;
        }
        None
    }

    fn run(&self, w: &Value) -> Option<String> {
        check(w["pattern"].as_str()?, w["text"].as_str()?, w["backtrack_limit"].as_u64().map(|x| x as usize))
    }
}
