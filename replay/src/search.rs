//! Family `search`: the public search entry points of the real crate on a small corpus, under catch_unwind:
//! coherence of is_match / find / captures (C09), validity of every reported offset (C05), group metadata (C16).
use crate::corpus;
use crate::{Budget, Family};
use fancy_regex::{Expr, Regex};
use serde_json::{json, Value};
use std::panic::{catch_unwind, AssertUnwindSafe};

pub struct Search;

fn valid(text: &str, s: usize, e: usize) -> bool {
    s <= e && e <= text.len() && text.is_char_boundary(s) && text.is_char_boundary(e)
}

fn check(pattern: &str, text: &str) -> Option<String> {
    match catch_unwind(AssertUnwindSafe(|| check_inner(pattern, text))) {
        Ok(x) => x,
        Err(_) => Some("panic in the real crate".to_string()),
    }
}

fn check_inner(pattern: &str, text: &str) -> Option<String> {
    let re = match Regex::new(pattern) {
        Ok(r) => r,
        Err(_) => return None,
    };
    let n = re.captures_len();
    let names: Vec<_> = re.capture_names().collect();
    // C16: captures_len == 1 + number of capturing groups (counted on the parsed tree), names at their group's index
    if let Ok(tree) = Expr::parse_tree(pattern) {
        let g = count_groups(&tree.expr);
        if n != g + 1 {
            return Some(format!("captures_len {} but the pattern has {} capturing groups", n, g));
        }
    }
    for (name, idx) in expected_names(pattern) {
        if names.get(idx).cloned().flatten() != Some(name.as_str()) {
            return Some(format!("capture_names()[{}] should be {:?}, names are {:?}", idx, name, names));
        }
    }
    if names.len() != n {
        return Some(format!("capture_names has {} entries, captures_len {}", names.len(), n));
    }
    // ... and nothing else is a name: a group written without a name has none
    let exp = expected_names(pattern);
    for (i, nm) in names.iter().enumerate() {
        if let Some(nm) = nm {
            if !exp.iter().any(|(e, idx)| *idx == i && e == nm) {
                return Some(format!("capture_names()[{}] is {:?} but the pattern gives that group no such name (names {:?})", i, nm, names));
            }
        }
    }
    let im = re.is_match(text);
    let f0 = re.find(text);
    let c0 = re.captures(text);
    match (&im, &f0, &c0) {
        (Ok(b), Ok(f), Ok(c)) => {
            if *b != f.is_some() || f.is_some() != c.is_some() {
                return Some(format!("is_match {} find {} captures {}", b, f.is_some(), c.is_some()));
            }
        }
        (Err(_), Err(_), Err(_)) => {}
        _ => return Some("is_match / find / captures disagree on Err".to_string()),
    }
    let mut positions: Vec<usize> = (0..=text.len()).filter(|&p| text.is_char_boundary(p)).collect();
    positions.dedup();
    for pos in positions {
        let f = re.find_from_pos(text, pos);
        let c = re.captures_from_pos(text, pos);
        match (f, c) {
            (Ok(None), Ok(None)) => {}
            (Ok(Some(m)), Ok(Some(c))) => {
                if !valid(text, m.start(), m.end()) || m.start() < pos {
                    return Some(format!("find_from_pos({}) reported invalid span ({},{})", pos, m.start(), m.end()));
                }
                let _ = m.as_str();
                let g0 = match c.get(0) {
                    Some(g) => g,
                    None => return Some(format!("captures_from_pos({}).get(0) is None", pos)),
                };
                if (g0.start(), g0.end()) != (m.start(), m.end()) {
                    return Some(format!("pos {}: captures.get(0) ({},{}) != find ({},{})", pos, g0.start(), g0.end(), m.start(), m.end()));
                }
                if c.len() != n {
                    return Some(format!("pos {}: Captures::len {} != captures_len {}", pos, c.len(), n));
                }
                let items: Vec<_> = c.iter().collect();
                if items.len() != c.len() {
                    return Some(format!("pos {}: iter() yields {} items, len() {}", pos, items.len(), c.len()));
                }
                for i in 0..c.len() {
                    let g = c.get(i);
                    if items[i].map(|m| (m.start(), m.end())) != g.map(|m| (m.start(), m.end())) {
                        return Some(format!("pos {}: iter()[{}] != get({})", pos, i, i));
                    }
                    if let Some(g) = g {
                        if !valid(text, g.start(), g.end()) {
                            return Some(format!("pos {}: group {} invalid span ({},{})", pos, i, g.start(), g.end()));
                        }
                        let _ = g.as_str();
                    }
                    if let Some(Some(nm)) = names.get(i) {
                        if c.name(nm).map(|m| (m.start(), m.end())) != g.map(|m| (m.start(), m.end())) {
                            return Some(format!("pos {}: name({}) != get({})", pos, nm, i));
                        }
                    }
                }
                for i in [c.len(), c.len() + 1, usize::MAX / 2, usize::MAX / 2 + 1, usize::MAX] {
                    if c.get(i).is_some() {
                        return Some(format!("pos {}: get({}) is Some although len is {}", pos, i, c.len()));
                    }
                }
            }
            (Err(_), Err(_)) => {}
            _ => return Some(format!("pos {}: find_from_pos and captures_from_pos disagree", pos)),
        }
    }
    // C09 under a configured backtrack limit: the three entry points run the same search, so they agree on Ok / Err too
    for bl in [1usize, 3, 30, usize::MAX] {
        if let Ok(rl) = fancy_regex::RegexBuilder::new(pattern).backtrack_limit(bl).build() {
            let f = rl.find(text).map(|m| m.map(|m| (m.start(), m.end()))).map_err(|_| ());
            let i = rl.is_match(text).map_err(|_| ());
            let c = rl.captures(text).map(|c| c.map(|c| c.get(0).map(|m| (m.start(), m.end())))).map_err(|_| ());
            if i != f.map(|m| m.is_some()) {
                return Some(format!("backtrack_limit {}: is_match = {:?} but find = {:?}", bl, i, f));
            }
            if c != f.map(|m| m.map(Some)) {
                return Some(format!("backtrack_limit {}: captures.get(0) = {:?} but find = {:?}", bl, c, f));
            }
        }
    }
    // C16 / C09 through the builder's other options: group metadata and captures do not depend on size limits, case folding aside
    for which in 0..3 {
        let mut b = fancy_regex::RegexBuilder::new(pattern);
        match which {
            0 => { b.delegate_size_limit(64 << 20); }
            1 => { b.delegate_dfa_size_limit(64 << 20); }
            _ => { b.delegate_size_limit(64 << 20).delegate_dfa_size_limit(64 << 20).backtrack_limit(usize::MAX); }
        }
        if let Ok(rb) = b.build() {
            if rb.captures_len() != n {
                return Some(format!("builder variant {}: captures_len {} != {}", which, rb.captures_len(), n));
            }
            let nb: Vec<_> = rb.capture_names().collect();
            if nb != names {
                return Some(format!("builder variant {}: capture_names differ", which));
            }
            let c0 = re.captures(text).map(|c| c.map(|c| (0..c.len()).map(|i| c.get(i).map(|m| (m.start(), m.end()))).collect::<Vec<_>>())).map_err(|_| ());
            let c1 = rb.captures(text).map(|c| c.map(|c| (c.len(), (0..c.len()).map(|i| c.get(i).map(|m| (m.start(), m.end()))).collect::<Vec<_>>()))).map_err(|_| ());
            match (&c0, &c1) {
                (Ok(Some(a)), Ok(Some((l, b2)))) => {
                    if *l != n || a != b2 {
                        return Some(format!("builder variant {}: captures {:?} (len {}) differ from Regex::new's {:?} (captures_len {})", which, b2, l, a, n));
                    }
                }
                (Ok(None), Ok(None)) | (Err(_), Err(_)) => {}
                _ => return Some(format!("builder variant {}: captures disagree with Regex::new", which)),
            }
        }
    }
    // replace must not panic and must keep non-matching text
    let _ = re.try_replacen(text, 0, "[$0]");
    let _ = re.try_replacen(text, 0, fancy_regex::NoExpand("x"));
    None
}

fn count_groups(e: &Expr) -> usize {
    match e {
        Expr::Concat(v) | Expr::Alt(v) => v.iter().map(count_groups).sum(),
        Expr::Group(c) => 1 + count_groups(c),
        Expr::LookAround(c, _) | Expr::AtomicGroup(c) => count_groups(c),
        Expr::Repeat { child, .. } => count_groups(child),
        Expr::Conditional { condition, true_branch, false_branch } => count_groups(condition) + count_groups(true_branch) + count_groups(false_branch),
        _ => 0,
    }
}

/// (name, index) of every named group, by opening-parenthesis order, from the pattern text (corpus patterns have no
/// escaped parentheses and no parentheses inside classes)
fn expected_names(pattern: &str) -> Vec<(String, usize)> {
    // free-spacing mode (only used with a leading `(?x)` in the corpus): a `#` comment runs to the end of the line
    let stripped: String;
    let pattern = if pattern.starts_with("(?x)") {
        stripped = pattern.split('\n').map(|l| l.split('#').next().unwrap_or("")).collect::<Vec<_>>().join("\n");
        stripped.as_str()
    } else {
        pattern
    };
    let b = pattern.as_bytes();
    let mut out = vec![];
    let mut idx = 0usize;
    let mut i = 0;
    while i < b.len() {
        if b[i] == b'\\' {
            i += 2;
            continue;
        }
        if b[i] == b'(' {
            let rest = &pattern[i + 1..];
            let named = if rest.starts_with("?<") && !rest.starts_with("?<=") && !rest.starts_with("?<!") {
                Some(2)
            } else if rest.starts_with("?P<") {
                Some(3)
            } else {
                None
            };
            if let Some(off) = named {
                idx += 1;
                if let Some(end) = rest[off..].find('>') {
                    out.push((rest[off..off + end].to_string(), idx));
                }
            } else if !rest.starts_with('?') {
                idx += 1;
            }
        }
        i += 1;
    }
    out
}

fn group_patterns() -> Vec<&'static str> {
    vec![
        r"(a)|(b)", r"(a)?(b)(?=c)", r"((?<n>a))", r"(x(?P<n>a)(y))(?<m>z)", r"(?:a+)*", r"(?:a?){2}(?<n>b)", r"(x)(?:\d{2})+?(?<n>y)", r"(?:a+)*(?!c)",
        r"(?<a>a)(?<b>b)?\k<a>", r"(a)(b)(c)", r"(?:(?>(a)|b))+", r"(?:(?:(a)|b)(?!c))+", r"(?<!x)", r"(a)(?=b)", r"(é)(?=a)",
        // references spelled with numbers through the NAMED syntax name nothing: the group stays unnamed
        r"(a)(b)\k<-1>", r"(a)(b)\k<2>", r"(a)(b)\k'-1'", r"(a)(?P=1)", r"(?<x>a)(b)\k<-1>\k<x>", r"(a)(b)?(?(<-1>)y|z)", r"(a)\k<1>(b)\k<-1>",
        // a NAMED group with capturing groups inside it, in both spellings and for both engines: the name belongs to the group's own
        // index, not to the index the counter has reached when the group closes (added after seeded/C16-17)
        r"(?P<o>a(b)(c))(d)", r"(?P<o>a(b)(?P<i>c))(?=d)", r"(?<o>a(b)(?<i>c))(?=d)", r"(?P<o>(a)|(b))+(?!x)", r"((?P<o>(a)(?P<i>b))c)",
        // free-spacing mode: a `#` comment runs to the end of the line, whatever characters and parentheses it contains
        "(?x)(a) # naïve → same as f()\n(?<v>b)", "(?x)(a) # €€€ (x) (y)\n(b)(?=c)", "(?x) (a) # ()\n (?<n>b) # 😀 (\n (c)",
    ]
}

/// group forms x quantifiers x contexts (delegated as a whole, and forced into the VM by a look-ahead / back-reference)
pub fn group_products() -> Vec<String> {
    let groups = ["(a)", "(?<n>a)", "(a)|(b)", "((a)b)", "(?:(a)|(?<n>b))", "(a)(?<n>b)"];
    let quants = ["", "?", "*", "+", "{0}", "{0,0}", "{2}", "{0,1}", "{1,}", "*?", "{0}?"];
    let mut out = vec![];
    for g in groups {
        for q in quants {
            let core = if g.contains('|') && !g.starts_with("(?:") { format!("(?:{}){}", g, q) } else { format!("{}{}", g, q) };
            out.push(core.clone());
            out.push(format!("{}b", core));
            out.push(format!("{}(b)", core));
            out.push(format!("{}(?<x>b)", core));
            out.push(format!("{}(?=c)", core));
            out.push(format!("(?=.){}(y)", core));
            out.push(format!("(?<w>w)?{}", core));
        }
    }
    out
}

impl Family for Search {
    fn search(&self, budget: &mut Budget, seed: u64) -> Option<(Value, String)> {
        let products = group_products();
        let mut pats = corpus::patterns();
        pats.extend(group_patterns());
        pats.extend(products.iter().map(|s| s.as_str()));
        let mut texts = corpus::texts();
        texts.extend(vec!["bc", "xay", "xayz", "a12y", "ab", "é", "éa"]);
        for p in &pats {
            for t in &texts {
                budget.evals += 1;
                if let Some(d) = check(p, t) {
                    return Some((json!({"pattern": p, "text": t}), d));
                }
                if budget.expired() {
                    return None;
                }
            }
        }
        // the rest of the budget: generated patterns
        let mut index = 0u64;
        while !budget.expired() {
            for p in corpus::generated(seed, index) {
                for t in corpus::small_texts() {
                    budget.evals += 1;
                    if let Some(d) = check(&p, t) {
                        return Some((json!({"pattern": p, "text": t}), d));
                    }
                }
            }
            index += 1;
        }
        None
    }
    fn run(&self, w: &Value) -> Option<String> {
        check(w["pattern"].as_str()?, w["text"].as_str()?)
    }
}
