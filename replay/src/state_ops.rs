//! Family `state_ops`: operation sequences on the real `vm::State` (through the cfg-guarded hook
//! wrapper) against a whole-state-copy reference model -- the executable rendering of the U-STATE view
//! (slots, explicit stack, frames).
use crate::{Budget, Family};
use fancy_regex::internal::StateH;
use serde_json::{json, Value};
use std::panic::{catch_unwind, AssertUnwindSafe};

pub struct StateOps;

const NSLOTS: usize = 3;
const MAXU: usize = usize::MAX;

#[derive(Clone, Copy, Debug, PartialEq)]
pub enum Op {
    Push,           // create alternative (pc = ix = running counter)
    Pop,            // abandon: resume the newest alternative
    Save(usize, usize),
    Enter,          // stack_push(backtrack_count)
    Commit,         // c = stack_pop(); backtrack_cut(c)
    SPush(usize),   // stack_push(v)
    SPop,           // stack_pop()
}

fn ops_alphabet() -> Vec<Op> {
    let mut v = vec![Op::Push, Op::Pop, Op::Enter, Op::Commit, Op::SPush(7), Op::SPop];
    for s in 0..NSLOTS {
        for val in 1..=3 {
            v.push(Op::Save(s, val));
        }
    }
    v
}

#[derive(Clone, Debug, PartialEq)]
struct Model {
    slots: Vec<usize>,
    estack: Vec<usize>,
    frames: Vec<(usize, usize, Vec<usize>, Vec<usize>)>,
}

fn real_view(st: &StateH) -> (Vec<usize>, Vec<usize>) {
    let saves = st.saves();
    let esp = st.explicit_sp();
    let slots = saves[..esp].to_vec();
    let estack = if saves.len() <= esp { vec![] } else { saves[esp + 1..saves[esp]].to_vec() };
    (slots, estack)
}

/// Run a sequence on both; Some(detail) on the first disagreement (or a panic of the real code).
fn run_seq(seq: &[Op]) -> Option<String> {
    let r = catch_unwind(AssertUnwindSafe(|| run_seq_inner(seq)));
    match r {
        Ok(x) => x,
        Err(_) => Some("real State panicked".to_string()),
    }
}

fn applicable(m: &Model, op: Op) -> bool {
    match op {
        Op::Pop => !m.frames.is_empty(),
        // Commit needs an entry that is a valid depth (produced by Enter); SPop any entry
        Op::Commit => m.estack.last().map_or(false, |&c| c <= m.frames.len()),
        Op::SPop => !m.estack.is_empty(),
        _ => true,
    }
}

fn run_seq_inner(seq: &[Op]) -> Option<String> {
    let mut st = StateH::new(NSLOTS, 1_000);
    let mut m = Model { slots: vec![MAXU; NSLOTS], estack: vec![], frames: vec![] };
    let mut ctr = 0usize;
    for (i, &op) in seq.iter().enumerate() {
        if !applicable(&m, op) {
            return None; // sequence not meaningful; skipped (counts as trivial)
        }
        match op {
            Op::Push => {
                ctr += 1;
                if !st.push(ctr, ctr + 100) {
                    return Some(format!("step {}: push refused below max_stack", i));
                }
                m.frames.push((ctr, ctr + 100, m.slots.clone(), m.estack.clone()));
            }
            Op::Pop => {
                let (pc, ix) = st.pop();
                let f = m.frames.pop().unwrap();
                if (pc, ix) != (f.0, f.1) {
                    return Some(format!("step {}: pop returned {:?}, model {:?}", i, (pc, ix), (f.0, f.1)));
                }
                m.slots = f.2;
                m.estack = f.3;
            }
            Op::Save(s, v) => {
                st.save(s, v);
                m.slots[s] = v;
            }
            Op::Enter => {
                let c = st.backtrack_count();
                if c != m.frames.len() {
                    return Some(format!("step {}: backtrack_count {} model {}", i, c, m.frames.len()));
                }
                st.stack_push(c);
                m.estack.push(c);
            }
            Op::Commit => {
                let c = st.stack_pop();
                let mc = m.estack.pop().unwrap();
                if c != mc {
                    return Some(format!("step {}: stack_pop {} model {}", i, c, mc));
                }
                st.backtrack_cut(c);
                m.frames.truncate(c);
            }
            Op::SPush(v) => {
                st.stack_push(v);
                m.estack.push(v);
            }
            Op::SPop => {
                let c = st.stack_pop();
                let mc = m.estack.pop().unwrap();
                if c != mc {
                    return Some(format!("step {}: stack_pop {} model {}", i, c, mc));
                }
            }
        }
        let (slots, estack) = real_view(&st);
        if slots != m.slots || estack != m.estack {
            return Some(format!("step {} ({:?}): real (slots {:?}, estack {:?}) model (slots {:?}, estack {:?})", i, op, slots, estack, m.slots, m.estack));
        }
        if st.backtrack_count() != m.frames.len() {
            return Some(format!("step {} ({:?}): {} pending alternatives, model {}", i, op, st.backtrack_count(), m.frames.len()));
        }
    }
    // drain: every pending alternative must restore exactly its snapshot
    let mut k = 0;
    while let Some(f) = m.frames.pop() {
        let (pc, ix) = st.pop();
        let (slots, estack) = real_view(&st);
        if (pc, ix) != (f.0, f.1) || slots != f.2 || estack != f.3 {
            return Some(format!("drain {}: real ({},{}) slots {:?} estack {:?}; model ({},{}) slots {:?} estack {:?}", k, pc, ix, slots, estack, f.0, f.1, f.2, f.3));
        }
        k += 1;
    }
    None
}

fn op_to_json(op: Op) -> Value {
    match op {
        Op::Push => json!("push"),
        Op::Pop => json!("pop"),
        Op::Save(s, v) => json!(["save", s, v]),
        Op::Enter => json!("enter"),
        Op::Commit => json!("commit"),
        Op::SPush(v) => json!(["spush", v]),
        Op::SPop => json!("spop"),
    }
}
fn op_from_json(v: &Value) -> Option<Op> {
    if let Some(s) = v.as_str() {
        return match s {
            "push" => Some(Op::Push),
            "pop" => Some(Op::Pop),
            "enter" => Some(Op::Enter),
            "commit" => Some(Op::Commit),
            "spop" => Some(Op::SPop),
            _ => None,
        };
    }
    let a = v.as_array()?;
    match a[0].as_str()? {
        "save" => Some(Op::Save(a[1].as_u64()? as usize, a[2].as_u64()? as usize)),
        "spush" => Some(Op::SPush(a[1].as_u64()? as usize)),
        _ => None,
    }
}

impl Family for StateOps {
    fn search(&self, budget: &mut Budget, seed: u64) -> Option<(Value, String)> {
        let alpha = ops_alphabet();
        // iterative deepening, exhaustive per length while the budget lasts
        for len in 1..=8usize {
            let mut idx = vec![0usize; len];
            loop {
                let seq: Vec<Op> = idx.iter().map(|&i| alpha[(i + seed as usize) % alpha.len()]).collect();
                budget.evals += 1;
                if let Some(d) = run_seq(&seq) {
                    return Some((json!({"ops": seq.iter().map(|&o| op_to_json(o)).collect::<Vec<_>>()}), d));
                }
                if budget.evals % 4096 == 0 && budget.expired() {
                    return None;
                }
                // next index vector
                let mut p = len;
                loop {
                    if p == 0 {
                        break;
                    }
                    p -= 1;
                    idx[p] += 1;
                    if idx[p] < alpha.len() {
                        break;
                    }
                    idx[p] = 0;
                    if p == 0 {
                        p = usize::MAX;
                        break;
                    }
                }
                if p == usize::MAX {
                    break;
                }
            }
        }
        None
    }

    fn run(&self, w: &Value) -> Option<String> {
        let ops: Vec<Op> = w["ops"].as_array()?.iter().filter_map(op_from_json).collect();
        run_seq(&ops)
    }
}
