//! Family `state_ops`: operation sequences on the real `vm::State` (through the cfg-guarded hook
//! wrapper) against a whole-state-copy reference model -- the executable rendering of the U-STATE view
//! (slots, explicit stack, frames).
use crate::{Budget, Family};
use fancy_regex::internal::StateH;
use serde_json::{json, Value};
use std::panic::{catch_unwind, AssertUnwindSafe};

pub struct StateOps;

const NSLOTS: usize = 3;
const MAXU: usize = usize::MAX;

#[derive(Clone, Copy, Debug, PartialEq)]
pub enum Op {
    Push,           // create alternative (pc = ix = running counter)
    Pop,            // abandon: resume the newest alternative
    Save(usize, usize),
    Enter,          // stack_push(backtrack_count)
    Commit,         // c = stack_pop(); backtrack_cut(c)
    SPush(usize),   // stack_push(v)
    SPop,           // stack_pop()
}

fn ops_alphabet() -> Vec<Op> {
    let mut v = vec![Op::Push, Op::Pop, Op::Enter, Op::Commit, Op::SPush(7), Op::SPop];
    for s in 0..NSLOTS {
        for val in 1..=3 {
            v.push(Op::Save(s, val));
        }
    }
    v
}

#[derive(Clone, Debug, PartialEq)]
struct Model {
    slots: Vec<usize>,
    estack: Vec<usize>,
    frames: Vec<(usize, usize, Vec<usize>, Vec<usize>)>,
}

fn real_view(st: &StateH) -> (Vec<usize>, Vec<usize>) {
    let saves = st.saves();
    let esp = st.explicit_sp();
    let slots = saves[..esp].to_vec();
    let estack = if saves.len() <= esp { vec![] } else { saves[esp + 1..saves[esp]].to_vec() };
    (slots, estack)
}

/// Run a sequence on both; Some(detail) on the first disagreement (or a panic of the real code).
fn run_seq(seq: &[Op]) -> Option<String> {
    run_seq_n(seq, NSLOTS)
}
fn run_seq_n(seq: &[Op], nslots: usize) -> Option<String> {
    let r = catch_unwind(AssertUnwindSafe(|| run_seq_inner(seq, nslots)));
    match r {
        Ok(x) => x,
        Err(_) => Some("real State panicked".to_string()),
    }
}

fn applicable(m: &Model, op: Op) -> bool {
    match op {
        Op::Pop => !m.frames.is_empty(),
        // Commit needs an entry that is a valid depth (produced by Enter); SPop any entry
        Op::Commit => m.estack.last().map_or(false, |&c| c <= m.frames.len()),
        Op::SPop => !m.estack.is_empty(),
        _ => true,
    }
}

fn run_seq_inner(seq: &[Op], nslots: usize) -> Option<String> {
    let mut st = StateH::new(nslots, 1_000);
    let mut m = Model { slots: vec![MAXU; nslots], estack: vec![], frames: vec![] };
    let mut ctr = 0usize;
    for (i, &op) in seq.iter().enumerate() {
        if !applicable(&m, op) {
            return None; // sequence not meaningful; skipped (counts as trivial)
        }
        match op {
            Op::Push => {
                ctr += 1;
                if !st.push(ctr, ctr + 100) {
                    return Some(format!("step {}: push refused below max_stack", i));
                }
                m.frames.push((ctr, ctr + 100, m.slots.clone(), m.estack.clone()));
            }
            Op::Pop => {
                let (pc, ix) = st.pop();
                let f = m.frames.pop().unwrap();
                if (pc, ix) != (f.0, f.1) {
                    return Some(format!("step {}: pop returned {:?}, model {:?}", i, (pc, ix), (f.0, f.1)));
                }
                m.slots = f.2;
                m.estack = f.3;
            }
            Op::Save(s, v) => {
                st.save(s, v);
                m.slots[s] = v;
            }
            Op::Enter => {
                let c = st.backtrack_count();
                if c != m.frames.len() {
                    return Some(format!("step {}: backtrack_count {} model {}", i, c, m.frames.len()));
                }
                st.stack_push(c);
                m.estack.push(c);
            }
            Op::Commit => {
                let c = st.stack_pop();
                let mc = m.estack.pop().unwrap();
                if c != mc {
                    return Some(format!("step {}: stack_pop {} model {}", i, c, mc));
                }
                st.backtrack_cut(c);
                m.frames.truncate(c);
            }
            Op::SPush(v) => {
                st.stack_push(v);
                m.estack.push(v);
            }
            Op::SPop => {
                let c = st.stack_pop();
                let mc = m.estack.pop().unwrap();
                if c != mc {
                    return Some(format!("step {}: stack_pop {} model {}", i, c, mc));
                }
            }
        }
        let (slots, estack) = real_view(&st);
        if slots != m.slots || estack != m.estack {
            return Some(format!("step {} ({:?}): real (slots {:?}, estack {:?}) model (slots {:?}, estack {:?})", i, op, slots, estack, m.slots, m.estack));
        }
        if st.backtrack_count() != m.frames.len() {
            return Some(format!("step {} ({:?}): {} pending alternatives, model {}", i, op, st.backtrack_count(), m.frames.len()));
        }
    }
    // drain: every pending alternative must restore exactly its snapshot
    let mut k = 0;
    while let Some(f) = m.frames.pop() {
        let (pc, ix) = st.pop();
        let (slots, estack) = real_view(&st);
        if (pc, ix) != (f.0, f.1) || slots != f.2 || estack != f.3 {
            return Some(format!("drain {}: real ({},{}) slots {:?} estack {:?}; model ({},{}) slots {:?} estack {:?}", k, pc, ix, slots, estack, f.0, f.1, f.2, f.3));
        }
        k += 1;
    }
    None
}

fn op_to_json(op: Op) -> Value {
    match op {
        Op::Push => json!("push"),
        Op::Pop => json!("pop"),
        Op::Save(s, v) => json!(["save", s, v]),
        Op::Enter => json!("enter"),
        Op::Commit => json!("commit"),
        Op::SPush(v) => json!(["spush", v]),
        Op::SPop => json!("spop"),
    }
}
fn op_from_json(v: &Value) -> Option<Op> {
    if let Some(s) = v.as_str() {
        return match s {
            "push" => Some(Op::Push),
            "pop" => Some(Op::Pop),
            "enter" => Some(Op::Enter),
            "commit" => Some(Op::Commit),
            "spop" => Some(Op::SPop),
            _ => None,
        };
    }
    let a = v.as_array()?;
    match a[0].as_str()? {
        "save" => Some(Op::Save(a[1].as_u64()? as usize, a[2].as_u64()? as usize)),
        "spush" => Some(Op::SPush(a[1].as_u64()? as usize)),
        _ => None,
    }
}

impl Family for StateOps {
    fn search(&self, budget: &mut Budget, seed: u64) -> Option<(Value, String)> {
        let alpha = ops_alphabet();
        let start = std::time::Instant::now();
        // iterative deepening, exhaustive per length while the first half of the budget lasts
        for len in 1..=8usize {
            let mut idx = vec![0usize; len];
            loop {
                let seq: Vec<Op> = idx.iter().map(|&i| alpha[(i + seed as usize) % alpha.len()]).collect();
                budget.evals += 1;
                if let Some(d) = run_seq(&seq) {
                    return Some((json!({"ops": seq.iter().map(|&o| op_to_json(o)).collect::<Vec<_>>()}), d));
                }
                if budget.evals % 4096 == 0 && std::time::Instant::now() + (budget.deadline - start) / 2 >= budget.deadline {
                    break;
                }
                // next index vector
                let mut p = len;
                loop {
                    if p == 0 {
                        break;
                    }
                    p -= 1;
                    idx[p] += 1;
                    if idx[p] < alpha.len() {
                        break;
                    }
                    idx[p] = 0;
                    if p == 0 {
                        p = usize::MAX;
                        break;
                    }
                }
                if p == usize::MAX {
                    break;
                }
            }
            // leave the second half of the budget to the long random sequences
            if std::time::Instant::now() + (budget.deadline - start) / 2 >= budget.deadline {
                break;
            }
        }
        // long pseudo-random sequences over 3 / 40 / 300 slots with bursts that save every slot (some twice) inside one level: the shapes
        // small exhaustive sequences cannot reach (hundreds of records in one level, re-saves far from the first save, deep frame stacks)
        let mut rng = seed.wrapping_mul(0x9E3779B97F4A7C15) ^ 0x51A7E;
        let mut next = move || {
            rng = rng.wrapping_add(0x9E3779B97F4A7C15);
            let mut z = rng;
            z = (z ^ (z >> 30)).wrapping_mul(0xBF58476D1CE4E5B9);
            z = (z ^ (z >> 27)).wrapping_mul(0x94D049BB133111EB);
            z ^ (z >> 31)
        };
        let mut round = 0usize;
        while !budget.expired() {
            let nslots = [3usize, 40, 300][round % 3];
            round += 1;
            let mut seq: Vec<Op> = vec![];
            let (mut frames, mut estack): (usize, Vec<usize>) = (0, vec![]);
            let len = 200 + (next() % 1500) as usize;
            while seq.len() < len {
                let r = next() % 100;
                if r < 6 {
                    // burst: every slot once, and a prefix of them a second time
                    for sl in 0..nslots {
                        seq.push(Op::Save(sl, 1 + (next() % 5) as usize));
                    }
                    let again = (next() as usize) % (nslots + 1);
                    for sl in 0..again {
                        seq.push(Op::Save(sl, 6 + (next() % 3) as usize));
                    }
                } else if r < 60 {
                    seq.push(Op::Save((next() as usize) % nslots, 1 + (next() % 9) as usize));
                } else if r < 74 {
                    if frames < 900 {
                        seq.push(Op::Push);
                        frames += 1;
                    }
                } else if r < 84 {
                    if frames > 0 {
                        seq.push(Op::Pop);
                        frames -= 1;
                        // the explicit stack is restored by the pop: forget what we know (only issue checked ops below)
                        estack.clear();
                    }
                } else if r < 90 {
                    seq.push(Op::Enter);
                    estack.push(frames);
                } else if r < 96 {
                    if let Some(&c) = estack.last() {
                        if c <= frames {
                            seq.push(Op::Commit);
                            estack.pop();
                            frames = c;
                        }
                    }
                } else if r < 98 {
                    seq.push(Op::SPush(7));
                    estack.push(usize::MAX);
                } else if estack.last() == Some(&usize::MAX) {
                    seq.push(Op::SPop);
                    estack.pop();
                }
            }
            budget.evals += 1;
            if let Some(d) = run_seq_n(&seq, nslots) {
                return Some((json!({"nslots": nslots, "ops": seq.iter().map(|&o| op_to_json(o)).collect::<Vec<_>>()}), d));
            }
        }
        None
    }

    fn run(&self, w: &Value) -> Option<String> {
        let ops: Vec<Op> = w["ops"].as_array()?.iter().filter_map(op_from_json).collect();
        run_seq_n(&ops, w["nslots"].as_u64().map_or(NSLOTS, |n| n as usize))
    }
}
