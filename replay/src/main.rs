//! replay search <family> [--budget-s N] [--seed S]      -> one JSON line {"found":bool,...}
//! replay run <family> '<witness json>'                  -> exit 1 (and a JSON line) if the witness still fails
use serde_json::{json, Value};
use std::alloc::{GlobalAlloc, Layout, System};
use std::sync::atomic::{AtomicUsize, Ordering};
use std::time::{Duration, Instant};

/// Allocation tracker: the largest single allocation request since the last reset (C06: no unbounded allocation).
pub struct Tracking;
pub static MAX_ALLOC: AtomicUsize = AtomicUsize::new(0);
/// only requests of 64 KiB and more are recorded (the shared counter would otherwise serialise the threads)
#[inline]
fn note(n: usize) {
    if n >= 1 << 16 {
        MAX_ALLOC.fetch_max(n, Ordering::Relaxed);
    }
}
unsafe impl GlobalAlloc for Tracking {
    unsafe fn alloc(&self, l: Layout) -> *mut u8 {
        note(l.size());
        System.alloc(l)
    }
    unsafe fn alloc_zeroed(&self, l: Layout) -> *mut u8 {
        note(l.size());
        System.alloc_zeroed(l)
    }
    unsafe fn realloc(&self, p: *mut u8, l: Layout, n: usize) -> *mut u8 {
        note(n);
        System.realloc(p, l, n)
    }
    unsafe fn dealloc(&self, p: *mut u8, l: Layout) {
        System.dealloc(p, l)
    }
}
#[global_allocator]
static GLOBAL: Tracking = Tracking;

mod analyze;
mod corpus;
mod expand;
mod expect;
mod iter;
mod parse;
mod progwf;
mod quote;
mod refsem;
mod replace;
mod search;
mod state_ops;

pub struct Budget {
    pub deadline: Instant,
    pub evals: u64,
}
impl Budget {
    pub fn expired(&self) -> bool {
        Instant::now() >= self.deadline
    }
}

/// A family enumerates inputs of the real function(s) and compares with the executable spec.
pub trait Family {
    /// Search for a failing input; Some(witness, detail) on the first disagreement.
    fn search(&self, budget: &mut Budget, seed: u64) -> Option<(Value, String)>;
    /// Re-run one witness; Some(detail) if it (still) fails.
    fn run(&self, witness: &Value) -> Option<String>;
}

fn family(name: &str) -> Option<Box<dyn Family>> {
    match name {
        "state_ops" => Some(Box::new(state_ops::StateOps)),
        "iter" => Some(Box::new(iter::Iter)),
        "analyze" => Some(Box::new(analyze::Analyze)),
        "quote" => Some(Box::new(quote::Quote)),
        "parse" => Some(Box::new(parse::Parse)),
        "expect" => Some(Box::new(expect::Expect)),
        "expand" => Some(Box::new(expand::Expand)),
        "replace" => Some(Box::new(replace::Replace)),
        "search" => Some(Box::new(search::Search)),
        "refsem" => Some(Box::new(refsem::RefSem)),
        "progwf" => Some(Box::new(progwf::ProgWf)),
        _ => None,
    }
}

fn main() {
    let args: Vec<String> = std::env::args().collect();
    if args.len() < 3 {
        eprintln!("usage: replay search|run <family> ...");
        std::process::exit(2);
    }
    let fam = match family(&args[2]) {
        Some(f) => f,
        None => {
            println!("{}", json!({"found": false, "error": format!("unknown family {}", args[2])}));
            std::process::exit(2);
        }
    };
    match args[1].as_str() {
        "search" => {
            let mut budget_s = 20u64;
            let mut seed = 0u64;
            let mut i = 3;
            while i + 1 < args.len() {
                match args[i].as_str() {
                    "--budget-s" => budget_s = args[i + 1].parse().unwrap_or(20),
                    "--seed" => seed = args[i + 1].parse().unwrap_or(0),
                    _ => {}
                }
                i += 2;
            }
            let mut b = Budget { deadline: Instant::now() + Duration::from_secs(budget_s), evals: 0 };
            // a panic inside the real code is a failure of its own; families catch it where they can
            match fam.search(&mut b, seed) {
                Some((w, d)) => println!("{}", json!({"found": true, "family": args[2], "witness": w, "detail": d, "evaluations": b.evals})),
                None => println!("{}", json!({"found": false, "family": args[2], "evaluations": b.evals, "budget_exhausted": b.expired()})),
            }
        }
        "run" => {
            let w: Value = serde_json::from_str(&args[3]).expect("witness json");
            match fam.run(&w) {
                Some(d) => {
                    println!("{}", json!({"fails": true, "detail": d}));
                    std::process::exit(1);
                }
                None => println!("{}", json!({"fails": false})),
            }
        }
        _ => std::process::exit(2),
    }
}
