//! Family `progwf` (bounded support for an ASSUMED precondition): U-RUN proves `vm::run` for every program that satisfies
//! prog_wf (contracts/run.vrs); U-COMPILE does not prove that `compile` establishes it.  This family evaluates the executable
//! rendering of prog_wf -- jump / split / repeat targets inside the program, fall-through never leaves it, slot numbers below
//! n_saves, counter slots (a Repeat*'s `repeat`) disjoint from position slots (Save / Restore / Backref / Delegate groups /
//! epsilon `check`), slots 0 and 1 not counters -- on the programs the REAL analyze + compile produce for the corpus, the
//! group-product patterns and the reference matcher's generated patterns, wrapped exactly as Regex::new wraps them.
use crate::{Budget, Family};
use fancy_regex::internal::{analyze, compile, Insn};
use fancy_regex::Expr;
use serde_json::{json, Value};
use std::panic::{catch_unwind, AssertUnwindSafe};

pub struct ProgWf;

fn check_prog(body: &[Insn], n: usize) -> Option<String> {
    let len = body.len();
    if len == 0 {
        return Some("empty program".into());
    }
    if !(2 <= n) {
        return Some(format!("n_saves = {}", n));
    }
    let mut counter = vec![false; n.max(2)];
    for (i, ins) in body.iter().enumerate() {
        let rep = match ins {
            Insn::RepeatGr { repeat, .. } | Insn::RepeatNg { repeat, .. } | Insn::RepeatEpsilonGr { repeat, .. } | Insn::RepeatEpsilonNg { repeat, .. } => Some(*repeat),
            _ => None,
        };
        if let Some(r) = rep {
            if r >= n {
                return Some(format!("insn {}: repeat slot {} >= n_saves {}", i, r, n));
            }
            counter[r] = true;
        }
    }
    if counter[0] || counter[1] {
        return Some("slot 0 or 1 is a repeat counter".into());
    }
    let pos_slot = |i: usize, s: usize| -> Option<String> {
        if s >= n {
            return Some(format!("insn {}: slot {} >= n_saves {}", i, s, n));
        }
        if counter[s] {
            return Some(format!("insn {}: slot {} is used both as a position and as a repeat counter", i, s));
        }
        None
    };
    for (i, ins) in body.iter().enumerate() {
        let falls = !matches!(ins, Insn::End | Insn::Split(..) | Insn::Jmp(_));
        if falls && i + 1 >= len {
            return Some(format!("insn {} ({:?}) falls off the end of the program", i, ins));
        }
        let bad = match ins {
            Insn::Split(x, y) => (*x >= len || *y >= len).then(|| format!("insn {}: Split({}, {}) leaves the program of {} instructions", i, x, y, len)),
            Insn::Jmp(t) => (*t >= len).then(|| format!("insn {}: Jmp({}) leaves the program", i, t)),
            Insn::Save(s) | Insn::Restore(s) => pos_slot(i, *s),
            Insn::Save0(s) => (*s >= n).then(|| format!("insn {}: Save0({}) >= n_saves {}", i, s, n)),
            Insn::RepeatGr { next, .. } | Insn::RepeatNg { next, .. } => (*next >= len).then(|| format!("insn {}: repeat exit {} leaves the program", i, next)),
            Insn::RepeatEpsilonGr { next, check, .. } | Insn::RepeatEpsilonNg { next, check, .. } => {
                if *next >= len {
                    Some(format!("insn {}: repeat exit {} leaves the program", i, next))
                } else {
                    pos_slot(i, *check)
                }
            }
            Insn::Backref(s) => pos_slot(i, *s).or_else(|| pos_slot(i, *s + 1)),
            Insn::BackrefExistsCondition(g) => (2 * *g >= n).then(|| format!("insn {}: condition on group {} but n_saves {}", i, g, n)),
            Insn::Delegate { start_group, end_group, .. } => {
                if start_group > end_group || 2 * *end_group > n {
                    Some(format!("insn {}: Delegate groups {}..{} with n_saves {}", i, start_group, end_group, n))
                } else {
                    (2 * *start_group..2 * *end_group).find_map(|q| pos_slot(i, q))
                }
            }
            _ => None,
        };
        if bad.is_some() {
            return bad;
        }
    }
    None
}

fn check(pattern: &str) -> Option<String> {
    let wrapped = format!("(?s:.)*?({})", pattern);
    let r = catch_unwind(AssertUnwindSafe(|| {
        let tree = match Expr::parse_tree(&wrapped) {
            Ok(t) => t,
            Err(_) => return None,
        };
        let info = match analyze(&tree) {
            Ok(i) => i,
            Err(_) => return None,
        };
        match compile(&info) {
            Ok(prog) => check_prog(&prog.body, prog.verif_n_saves()).map(|d| format!("{} ; program {:?}", d, prog.body)),
            Err(_) => None,
        }
    }));
    match r {
        Ok(x) => x,
        Err(_) => Some("panic in analyze / compile".into()),
    }
}

impl Family for ProgWf {
    fn search(&self, budget: &mut Budget, seed: u64) -> Option<(Value, String)> {
        let mut pats: Vec<String> = crate::corpus::patterns().iter().map(|s| s.to_string()).collect();
        pats.extend(crate::search::group_products());
        pats.extend(crate::refsem::fixed_rendered());
        for p in &pats {
            budget.evals += 1;
            if let Some(d) = check(p) {
                return Some((json!({"pattern": p}), d));
            }
        }
        let mut index = 0u64;
        while !budget.expired() {
            for _ in 0..256 {
                let p = crate::refsem::rendered(seed, index);
                index += 1;
                budget.evals += 1;
                if let Some(d) = check(&p) {
                    return Some((json!({"pattern": p}), d));
                }
            }
        }
        None
    }
    fn run(&self, w: &Value) -> Option<String> {
        check(w["pattern"].as_str()?)
    }
}
