//! Family `quote` (bounded): escape(s) is borrowed iff nothing needed escaping, equals the spec quoting, and
//! Regex::new(escape(s)) -- alone and embedded in plain / fancy hosts -- finds exactly the first literal occurrence of s.
use crate::{Budget, Family};
use fancy_regex::{escape, Regex};
use serde_json::{json, Value};
use std::borrow::Cow;
use std::panic::{catch_unwind, AssertUnwindSafe};

pub struct Quote;

const SPECIAL: &str = "\\.+*?()|[]{}^$#";

fn spec_quote(s: &str) -> String {
    let mut o = String::new();
    for c in s.chars() {
        if SPECIAL.contains(c) {
            o.push('\\');
        }
        o.push(c);
    }
    o
}

fn alphabet() -> Vec<&'static str> {
    vec!["\\", ".", "+", "*", "?", "(", ")", "|", "[", "]", "{", "}", "^", "$", "#", "a", "b", "1", " ", "-", "<", ">", "é", "\u{0e01}", "\u{00bf}", "€", "😀", "\n"]
}

fn check(s: &str) -> Option<String> {
    match catch_unwind(AssertUnwindSafe(|| check_inner(s))) {
        Ok(x) => x,
        Err(_) => Some("panic in the real crate".to_string()),
    }
}

fn check_inner(s: &str) -> Option<String> {
    let e = escape(s);
    let needs = s.chars().any(|c| SPECIAL.contains(c));
    match &e {
        Cow::Borrowed(_) if needs => return Some("escape borrowed a string that needs escaping".into()),
        Cow::Owned(_) if !needs => return Some("escape allocated although nothing needed escaping".into()),
        _ => {}
    }
    if e.as_ref() != spec_quote(s) {
        return Some(format!("escape gives {:?}, spec quoting {:?}", e, spec_quote(s)));
    }
    if s.is_empty() {
        return None;
    }
    let texts: Vec<String> = vec![
        s.to_string(),
        format!("x{}", s),
        format!("{}x{}", &s[..s.chars().next().unwrap().len_utf8()], s),
        format!("a{}b{}", s.replace('.', "x").replace('a', "b"), s),
        format!("é{}", s),
        "ab".to_string(),
        format!("\u{0e01}{}", s),
    ];
    let mut hosts = vec!["{}", "(?>{})", "{}(?<={})", "(?={}){}", "(?:{})(?!\u{1})"];
    // free-spacing hosts: there white space is insignificant and `#` starts a comment, so `escape` must have quoted `#`; `escape` (like
    // regex::escape) leaves white space alone, hence only needles without white space (added after seeded/C17-18)
    if !s.chars().any(|c| c.is_whitespace()) {
        hosts.push("(?x) {} (?!\u{1})");
        hosts.push("(?x: {} )");
    }
    for host in hosts {
        let pat = host.replace("{}", &e);
        let re = match Regex::new(&pat) {
            Ok(r) => r,
            Err(err) => return Some(format!("host {:?}: pattern {:?} does not compile: {:?}", host, pat, err)),
        };
        for t in &texts {
            let want = t.find(s).map(|i| (i, i + s.len()));
            let got = match re.find(t) {
                Ok(m) => m.map(|m| (m.start(), m.end())),
                Err(err) => return Some(format!("host {:?} text {:?}: {:?}", host, t, err)),
            };
            if got != want {
                return Some(format!("host {:?}: searching {:?} in {:?} gives {:?}, str::find gives {:?}", host, s, t, got, want));
            }
        }
    }
    // "matches exactly s": anchored hosts (also in multi-line mode, where \A / \z keep their meaning) match a text iff it IS s
    let exact_hosts = ["\\A(?:{})\\z", "(?m)\\A(?:{})\\z", "(?m:\\A(?:{})\\z)", "^(?:{})$", "(?m)(?<![\\s\\S])(?:{})\\z", "(?=({}))\\1\\z"];
    let mut texts2 = texts.clone();
    texts2.push(format!("{}\n", s));
    texts2.push(format!("{}\nx", s));
    texts2.push(format!("\n{}", s));
    texts2.push(format!("x\n{}\ny", s));
    for host in exact_hosts {
        let pat = host.replace("{}", &e);
        let re = match Regex::new(&pat) {
            Ok(r) => r,
            Err(err) => return Some(format!("host {:?}: pattern {:?} does not compile: {:?}", host, pat, err)),
        };
        for t in &texts2 {
            // the last host is not anchored at the start: it finds s as a suffix of the text
            let want = if host.starts_with("(?=") { if t.ends_with(s) { Some((t.len() - s.len(), t.len())) } else { None } } else if t == s { Some((0, s.len())) } else { None };
            let got = match re.find(t) {
                Ok(m) => m.map(|m| (m.start(), m.end())),
                Err(err) => return Some(format!("host {:?} text {:?}: {:?}", host, t, err)),
            };
            if got != want {
                return Some(format!("anchored host {:?}: searching {:?} in {:?} gives {:?}, expected {:?}", host, s, t, got, want));
            }
        }
    }
    None
}

impl Family for Quote {
    fn search(&self, budget: &mut Budget, _seed: u64) -> Option<(Value, String)> {
        let al = alphabet();
        // all strings of length 1..3 over the alphabet (28 + 784 + 21952), exhaustive while the budget lasts
        for len in 1..=3usize {
            let mut idx = vec![0usize; len];
            loop {
                let s: String = idx.iter().map(|&i| al[i]).collect();
                budget.evals += 1;
                if let Some(d) = check(&s) {
                    return Some((json!({"s": s}), d));
                }
                if budget.evals % 16 == 0 && budget.expired() {
                    return None;
                }
                let mut p = len;
                let mut done = false;
                loop {
                    if p == 0 {
                        done = true;
                        break;
                    }
                    p -= 1;
                    idx[p] += 1;
                    if idx[p] < al.len() {
                        break;
                    }
                    idx[p] = 0;
                }
                if done {
                    break;
                }
            }
        }
        None
    }
    fn run(&self, w: &Value) -> Option<String> {
        check(w["s"].as_str()?)
    }
}
