//! Family `refsem` (bounded stand-in for C01 / C02 / C15; also exercises C13's consequences): an independent reference
//! matcher for the documented backtracking semantics, run on patterns that are GENERATED FROM ITS OWN SYNTAX TREE (so the
//! crate's parser, analyser, compiler and VM are all on the other side of the comparison), against
//! `Regex::captures_from_pos` of the real crate: overall span and every capture group, at every char-boundary start
//! offset.
//!
//! Reference semantics (taken from the property statements C01/C02/C15 and the crate's documentation, not from the code):
//!   * leftmost start position first; at one start position alternatives in order, greedy repeats prefer one more
//!     iteration, lazy repeats prefer to stop, possessive repeats / atomic groups keep only their first way of matching;
//!   * a group holds the span of its most recent completed iteration on the winning path, or nothing; giving up a path
//!     restores every group to what it held when the path was entered; a failed negative look-around leaves no trace;
//!   * a positive look-ahead matches its body at the position and consumes nothing, a look-behind holds iff its body
//!     matches text ending exactly at the position; look-arounds are atomic;
//!   * a back-reference matches the text its group holds, and fails if the group holds nothing;
//!   * `(?(n)yes|no)` picks by whether group n holds something; `(?(cond)yes|no)` tries cond once at the position
//!     (atomically), continues after it with `yes` if it matched and never falls back to `no` in that case, otherwise
//!     tries `no` at the position;
//!   * `\K` makes the reported match start at the position where it was last crossed on the winning path.
//! Left out of the generated space on purpose (they are the documented exclusions / recorded findings, see DESIGN.md):
//! unbounded repeats whose body can match the empty string (F1), conditionals nested directly in atomic groups or in
//! other conditionals' conditions (KF2), `\K` inside look-arounds, back-references to a group that is still open.
use crate::{Budget, Family};
use fancy_regex::Regex;
use serde_json::{json, Value};
use std::panic::{catch_unwind, AssertUnwindSafe};

#[derive(Clone, Debug, PartialEq)]
pub enum Mode {
    Greedy,
    Lazy,
    Possessive,
}

#[derive(Clone, Debug, PartialEq)]
pub enum LookKind {
    Ahead,
    AheadNeg,
    Behind,
    BehindNeg,
}

#[derive(Clone, Debug, PartialEq)]
pub enum R {
    Empty,
    Lit(char),
    Any,
    /// `[..]` (not negated) / `[^..]`
    Class(Vec<char>, bool),
    /// `(?s:.)`
    AnyNl,
    /// `(?i:c)`
    LitCi(char),
    /// spellings that NEGATE A FLAG THAT IS NOT SET (no effect): `(?-s:.)`, `(?-i:c)`, `(?-m:^)`
    AnyNegS,
    LitNegI(char),
    StartNegM,
    /// `\\A`, `\\z`, `(?m:\\z)` (multi-line mode does not change `\\z`), `(?m:^)`, `(?m:$)`
    StartA,
    StartAm,
    EndZ,
    EndZm,
    MlStart,
    MlEnd,
    Start,
    End,
    WordB,
    NotWordB,
    WordStart,
    WordEnd,
    Cat(Vec<R>),
    Alt(Vec<R>),
    Group(Box<R>),
    Rep(Box<R>, usize, Option<usize>, Mode),
    Look(Box<R>, LookKind),
    Atomic(Box<R>),
    Backref(usize),
    KeepOut,
    CondGroup(usize, Box<R>, Box<R>),
    /// `(?(N))` alone: succeeds (matching nothing) iff group N has matched
    GroupTest(usize),
    CondExpr(Box<R>, Box<R>, Box<R>),
}

// ---------------------------------------------------------------- rendering

fn is_atom(e: &R) -> bool {
    matches!(e, R::Lit(_) | R::Any | R::AnyNl | R::LitCi(_) | R::AnyNegS | R::LitNegI(_) | R::Class(..) | R::Group(_) | R::Look(..) | R::Atomic(_) | R::Backref(_) | R::CondGroup(..) | R::GroupTest(_) | R::CondExpr(..))
}

thread_local! {
    /// rendering mode: groups as `(?<gN>..)`, references as `\\k<gN>` / `(?(<gN>)..)` instead of numbers
    /// 0 = numbered; 1 = groups named g<N>; 2 = groups named by the NUMBER N+1 (a digit-only name that is not the group's index)
    static NAMED: std::cell::Cell<u8> = std::cell::Cell::new(0);
    static NEXT_GROUP: std::cell::Cell<usize> = std::cell::Cell::new(0);
}

/// the pattern text of a whole tree; `named`: every group gets the name g<number> and is referred to by it
pub fn render_top(e: &R, named: u8) -> String {
    NAMED.with(|n| n.set(named));
    NEXT_GROUP.with(|n| n.set(0));
    let mut out = String::new();
    render(e, &mut out);
    NAMED.with(|n| n.set(0));
    out
}

pub fn render(e: &R, out: &mut String) {
    match e {
        R::Empty => {}
        R::Lit(c) => {
            if NAMED.with(|n| n.get()) == 3 {
                // escaped spelling: the character written as a hex escape
                out.push_str(&format!("\\x{{{:x}}}", *c as u32));
            } else {
                if "\\.+*?()|[]{}^$#&-~".contains(*c) {
                    out.push('\\');
                }
                out.push(*c)
            }
        }
        R::Any => out.push('.'),
        R::AnyNl => out.push_str("(?s:.)"),
        R::AnyNegS => out.push_str("(?-s:.)"),
        R::LitCi(c) => {
            if NAMED.with(|n| n.get()) == 3 {
                out.push_str(&format!("(?i:\\x{{{:x}}})", *c as u32))
            } else {
                out.push_str(&format!("(?i:{})", c))
            }
        }
        R::LitNegI(c) => out.push_str(&format!("(?-i:{})", c)),
        R::StartNegM => out.push_str("(?-m:^)"),
        R::StartA => out.push_str("\\A"),
        R::StartAm => out.push_str("(?m:\\A)"),
        R::EndZ => out.push_str("\\z"),
        R::EndZm => out.push_str("(?m:\\z)"),
        R::MlStart => out.push_str("(?m:^)"),
        R::MlEnd => out.push_str("(?m:$)"),
        R::Class(cs, neg) => {
            out.push('[');
            if *neg {
                out.push('^');
            }
            let hex = NAMED.with(|n| n.get()) == 3;
            for c in cs {
                if hex {
                    out.push_str(&format!("\\x{{{:x}}}", *c as u32));
                    continue;
                }
                if "\\]^-[&~".contains(*c) {
                    out.push('\\');
                }
                out.push(*c);
            }
            out.push(']');
        }
        R::Start => out.push('^'),
        R::End => out.push('$'),
        R::WordB => out.push_str("\\b"),
        R::NotWordB => out.push_str("\\B"),
        R::WordStart => out.push_str("\\<"),
        R::WordEnd => out.push_str("\\>"),
        R::Cat(v) => {
            for c in v {
                if matches!(c, R::Alt(_)) {
                    out.push_str("(?:");
                    render(c, out);
                    out.push(')');
                } else {
                    render(c, out);
                }
            }
        }
        R::Alt(v) => {
            for (i, c) in v.iter().enumerate() {
                if i > 0 {
                    out.push('|');
                }
                render(c, out);
            }
        }
        R::Group(c) => {
            let g = NEXT_GROUP.with(|n| { let v = n.get() + 1; n.set(v); v });
            let mode = NAMED.with(|n| n.get());
            if mode == 1 {
                out.push_str(&format!("(?<g{}>", g));
            } else if mode == 2 {
                out.push_str(&format!("(?<{}>", g + 1));
            } else {
                out.push('(');
            }
            render(c, out);
            out.push(')');
        }
        R::Rep(c, lo, hi, mode) => {
            if is_atom(c) {
                render(c, out);
            } else {
                out.push_str("(?:");
                render(c, out);
                out.push(')');
            }
            match (lo, hi) {
                (0, None) => out.push('*'),
                (1, None) => out.push('+'),
                (0, Some(1)) => out.push('?'),
                (l, None) => out.push_str(&format!("{{{},}}", l)),
                (l, Some(h)) if l == h => out.push_str(&format!("{{{}}}", l)),
                (l, Some(h)) => out.push_str(&format!("{{{},{}}}", l, h)),
            }
            match mode {
                Mode::Greedy => {}
                Mode::Lazy => out.push('?'),
                Mode::Possessive => out.push('+'),
            }
        }
        R::Look(c, k) => {
            out.push_str(match k {
                LookKind::Ahead => "(?=",
                LookKind::AheadNeg => "(?!",
                LookKind::Behind => "(?<=",
                LookKind::BehindNeg => "(?<!",
            });
            render(c, out);
            out.push(')');
        }
        R::Atomic(c) => {
            out.push_str("(?>");
            render(c, out);
            out.push(')');
        }
        R::Backref(n) => {
            let mode = NAMED.with(|x| x.get());
            if mode == 1 {
                out.push_str(&format!("\\k<g{}>", n))
            } else if mode == 2 {
                out.push_str(&format!("\\k<{}>", n + 1))
            } else {
                out.push_str(&format!("\\{}", n))
            }
        }
        R::KeepOut => out.push_str("\\K"),
        R::CondGroup(n, t, f) => {
            let mode = NAMED.with(|x| x.get());
            if mode == 1 {
                out.push_str(&format!("(?(<g{}>)", n));
            } else if mode == 2 {
                out.push_str(&format!("(?(<{}>)", n + 1));
            } else {
                out.push_str(&format!("(?({})", n));
            }
            render_branches(t, f, out);
            out.push(')');
        }
        R::GroupTest(n) => {
            // the named spellings also put ignorable text behind the condition: a comment group is not a branch
            let mode = NAMED.with(|x| x.get());
            if mode == 1 {
                out.push_str(&format!("(?(<g{}>)(?#c))", n));
            } else if mode == 2 {
                out.push_str(&format!("(?(<{}>)(?#c)(?#d))", n + 1));
            } else {
                out.push_str(&format!("(?({}))", n));
            }
        }
        R::CondExpr(c, t, f) => {
            out.push_str("(?(");
            render(c, out);
            out.push(')');
            render_branches(t, f, out);
            out.push(')');
        }
    }
}

/// `yes|no`; an omitted `no` (empty) is written without the bar when `yes` is not empty: `(?(1)yes)`
fn render_branches(t: &R, f: &R, out: &mut String) {
    render_branch(t, out);
    if !(matches!(f, R::Empty) && !matches!(t, R::Empty)) {
        out.push('|');
        render_branch(f, out);
    }
}

fn render_branch(e: &R, out: &mut String) {
    if matches!(e, R::Alt(_)) {
        out.push_str("(?:");
        render(e, out);
        out.push(')');
    } else {
        render(e, out);
    }
}

/// number of capture groups, in order of their opening parenthesis in the rendered pattern (= pre-order)
pub fn count_groups(e: &R) -> usize {
    match e {
        R::Cat(v) | R::Alt(v) => v.iter().map(count_groups).sum(),
        R::Group(c) => 1 + count_groups(c),
        R::Rep(c, ..) | R::Look(c, _) | R::Atomic(c) => count_groups(c),
        R::CondGroup(_, t, f) => count_groups(t) + count_groups(f),
        R::GroupTest(_) => 0,
        R::CondExpr(c, t, f) => count_groups(c) + count_groups(t) + count_groups(f),
        _ => 0,
    }
}

/// (min, max) match length in characters; max None = unbounded
fn lens(e: &R) -> (usize, Option<usize>) {
    fn add(a: Option<usize>, b: Option<usize>) -> Option<usize> {
        Some(a?.saturating_add(b?))
    }
    match e {
        R::Lit(_) | R::Any | R::Class(..) | R::AnyNl | R::AnyNegS | R::LitCi(_) | R::LitNegI(_) => (1, Some(1)),
        R::Cat(v) => v.iter().map(lens).fold((0, Some(0)), |(a, b), (c, d)| (a + c, add(b, d))),
        R::Alt(v) => {
            let mut lo = usize::MAX;
            let mut hi = Some(0);
            for c in v {
                let (a, b) = lens(c);
                lo = lo.min(a);
                hi = match (hi, b) {
                    (Some(x), Some(y)) => Some(x.max(y)),
                    _ => None,
                };
            }
            (if lo == usize::MAX { 0 } else { lo }, hi)
        }
        R::Group(c) | R::Atomic(c) => lens(c),
        R::Rep(c, lo, hi, _) => {
            let (a, b) = lens(c);
            (a * lo, match (b, hi) {
                (Some(0), _) => Some(0),
                (Some(x), Some(h)) => Some(x * h),
                _ => None,
            })
        }
        R::Backref(_) => (0, None),
        R::CondGroup(_, t, f) => lens(&R::Alt(vec![(**t).clone(), (**f).clone()])),
        R::GroupTest(_) => (0, Some(0)),
        R::CondExpr(c, t, f) => lens(&R::Alt(vec![R::Cat(vec![(**c).clone(), (**t).clone()]), (**f).clone()])),
        _ => (0, Some(0)),
    }
}

// ---------------------------------------------------------------- the reference matcher

pub struct M<'t> {
    text: &'t str,
    caps: Vec<Option<(usize, usize)>>,
    keep: Option<usize>,
    steps: u64,
    pub blown: bool,
}

type K<'a, 't> = &'a mut dyn FnMut(&mut M<'t>, usize) -> bool;

fn is_word(c: Option<char>) -> bool {
    c.map_or(false, |c| c.is_alphanumeric() || c == '_')
}

impl<'t> M<'t> {
    fn next_char(&self, ix: usize) -> Option<char> {
        self.text[ix..].chars().next()
    }
    fn prev_char(&self, ix: usize) -> Option<char> {
        self.text[..ix].chars().next_back()
    }

    /// `gbase`: number of the first group opened inside `e`
    fn m(&mut self, e: &R, gbase: usize, ix: usize, k: K<'_, 't>) -> bool {
        self.steps += 1;
        if self.steps > 2_000_000 {
            self.blown = true;
            return false;
        }
        match e {
            R::Empty => k(self, ix),
            R::Lit(c) => match self.next_char(ix) {
                Some(d) if d == *c => k(self, ix + d.len_utf8()),
                _ => false,
            },
            R::Any | R::AnyNegS => match self.next_char(ix) {
                Some(d) if d != '\n' => k(self, ix + d.len_utf8()),
                _ => false,
            },
            R::AnyNl => match self.next_char(ix) {
                Some(d) => k(self, ix + d.len_utf8()),
                _ => false,
            },
            R::LitCi(c) => match self.next_char(ix) {
                Some(d) if d == *c || d.to_lowercase().eq(c.to_lowercase()) => k(self, ix + d.len_utf8()),
                _ => false,
            },
            R::LitNegI(c) => match self.next_char(ix) {
                Some(d) if d == *c => k(self, ix + d.len_utf8()),
                _ => false,
            },
            R::StartA | R::StartAm | R::StartNegM => ix == 0 && k(self, ix),
            R::EndZ | R::EndZm => ix == self.text.len() && k(self, ix),
            R::MlStart => (ix == 0 || self.prev_char(ix) == Some('\n')) && k(self, ix),
            R::MlEnd => (ix == self.text.len() || self.next_char(ix) == Some('\n')) && k(self, ix),
            R::Class(cs, neg) => match self.next_char(ix) {
                Some(d) if cs.contains(&d) != *neg => k(self, ix + d.len_utf8()),
                _ => false,
            },
            R::Start => ix == 0 && k(self, ix),
            R::End => ix == self.text.len() && k(self, ix),
            R::WordB => (is_word(self.prev_char(ix)) != is_word(self.next_char(ix))) && k(self, ix),
            R::NotWordB => (is_word(self.prev_char(ix)) == is_word(self.next_char(ix))) && k(self, ix),
            R::WordStart => (!is_word(self.prev_char(ix)) && is_word(self.next_char(ix))) && k(self, ix),
            R::WordEnd => (is_word(self.prev_char(ix)) && !is_word(self.next_char(ix))) && k(self, ix),
            R::Cat(v) => self.cat(v, gbase, ix, k),
            R::Alt(v) => {
                let mut g = gbase;
                for c in v {
                    if self.m(c, g, ix, k) {
                        return true;
                    }
                    if self.blown {
                        return false;
                    }
                    g += count_groups(c);
                }
                false
            }
            R::Group(c) => {
                let g = gbase;
                let old = self.caps[g];
                let ok = self.m(c, gbase + 1, ix, &mut |s: &mut M<'t>, e: usize| {
                    let inner = s.caps[g];
                    s.caps[g] = Some((ix, e));
                    if k(s, e) {
                        return true;
                    }
                    s.caps[g] = inner;
                    false
                });
                if !ok {
                    self.caps[g] = old;
                }
                ok
            }
            R::Rep(c, lo, hi, mode) => match mode {
                Mode::Possessive => {
                    let saved = self.caps.clone();
                    let keep = self.keep;
                    let mut end = None;
                    self.rep(c, gbase, *lo, *hi, true, 0, ix, &mut |_s, e| {
                        end = Some(e);
                        true
                    });
                    match end {
                        Some(e) => {
                            if k(self, e) {
                                true
                            } else {
                                self.caps = saved;
                                self.keep = keep;
                                false
                            }
                        }
                        None => false,
                    }
                }
                _ => self.rep(c, gbase, *lo, *hi, *mode == Mode::Greedy, 0, ix, k),
            },
            R::Atomic(c) => {
                let saved = self.caps.clone();
                let keep = self.keep;
                let mut end = None;
                self.m(c, gbase, ix, &mut |_s, e| {
                    end = Some(e);
                    true
                });
                match end {
                    Some(e) => {
                        if k(self, e) {
                            true
                        } else {
                            self.caps = saved;
                            self.keep = keep;
                            false
                        }
                    }
                    None => false,
                }
            }
            R::Look(c, kind) => {
                let saved = self.caps.clone();
                let keep = self.keep;
                let held = match kind {
                    LookKind::Ahead | LookKind::AheadNeg => self.m(c, gbase, ix, &mut |_s, _e| true),
                    LookKind::Behind | LookKind::BehindNeg => self.behind(c, gbase, ix),
                };
                let neg = matches!(kind, LookKind::AheadNeg | LookKind::BehindNeg);
                if neg {
                    self.caps = saved;
                    self.keep = keep;
                    !held && k(self, ix)
                } else if held {
                    if k(self, ix) {
                        true
                    } else {
                        self.caps = saved;
                        self.keep = keep;
                        false
                    }
                } else {
                    false
                }
            }
            R::Backref(n) => match self.caps[*n - 1] {
                Some((s, e)) => {
                    let piece = &self.text[s..e];
                    if self.text[ix..].starts_with(piece) {
                        k(self, ix + piece.len())
                    } else {
                        false
                    }
                }
                None => false,
            },
            R::KeepOut => {
                let old = self.keep;
                self.keep = Some(ix);
                if k(self, ix) {
                    true
                } else {
                    self.keep = old;
                    false
                }
            }
            R::CondGroup(n, t, f) => {
                if self.caps[*n - 1].is_some() {
                    self.m(t, gbase, ix, k)
                } else {
                    self.m(f, gbase + count_groups(t), ix, k)
                }
            }
            R::GroupTest(n) => self.caps[*n - 1].is_some() && k(self, ix),
            R::CondExpr(c, t, f) => {
                let saved = self.caps.clone();
                let keep = self.keep;
                let mut end = None;
                self.m(c, gbase, ix, &mut |_s, e| {
                    end = Some(e);
                    true
                });
                let gt = gbase + count_groups(c);
                match end {
                    Some(e) => {
                        if self.m(t, gt, e, k) {
                            true
                        } else {
                            self.caps = saved;
                            self.keep = keep;
                            false
                        }
                    }
                    None => {
                        self.caps = saved;
                        self.keep = keep;
                        self.m(f, gt + count_groups(t), ix, k)
                    }
                }
            }
        }
    }

    fn cat(&mut self, es: &[R], gbase: usize, ix: usize, k: K<'_, 't>) -> bool {
        match es.split_first() {
            None => k(self, ix),
            Some((first, rest)) => {
                let g2 = gbase + count_groups(first);
                self.m(first, gbase, ix, &mut |s: &mut M<'t>, e: usize| s.cat(rest, g2, e, k))
            }
        }
    }

    #[allow(clippy::too_many_arguments)]
    fn rep(&mut self, c: &R, gbase: usize, lo: usize, hi: Option<usize>, greedy: bool, count: usize, ix: usize, k: K<'_, 't>) -> bool {
        if count < lo {
            return self.m(c, gbase, ix, &mut |s: &mut M<'t>, e: usize| s.rep(c, gbase, lo, hi, greedy, count + 1, e, k));
        }
        let may_iterate = hi.map_or(true, |h| count < h);
        if greedy {
            if may_iterate
                && self.m(c, gbase, ix, &mut |s: &mut M<'t>, e: usize| {
                    // in an unbounded repeat an optional iteration that consumed nothing cannot lead anywhere new (the
                    // generated space has no such body: F1 exclusion); a bounded repeat is plain unrolling
                    (hi.is_some() || e != ix) && s.rep(c, gbase, lo, hi, greedy, count + 1, e, k)
                })
            {
                return true;
            }
            if self.blown {
                return false;
            }
            k(self, ix)
        } else {
            if k(self, ix) {
                return true;
            }
            if self.blown {
                return false;
            }
            may_iterate && self.m(c, gbase, ix, &mut |s: &mut M<'t>, e: usize| (hi.is_some() || e != ix) && s.rep(c, gbase, lo, hi, greedy, count + 1, e, k))
        }
    }

    /// look-behind: the body matches text ending exactly at ix.  An alternation is tried alternative by alternative (in
    /// order); within one alternative every way of matching has the same length, so the start is unique.
    fn behind(&mut self, c: &R, gbase: usize, ix: usize) -> bool {
        if let R::Alt(v) = c {
            let mut g = gbase;
            for a in v {
                if self.behind(a, g, ix) {
                    return true;
                }
                g += count_groups(a);
            }
            return false;
        }
        let mut j = ix;
        loop {
            if self.m(c, gbase, j, &mut |_s, e| e == ix) {
                return true;
            }
            if j == 0 {
                return false;
            }
            j -= 1;
            while !self.text.is_char_boundary(j) {
                j -= 1;
            }
        }
    }
}

pub type Caps = Vec<Option<(usize, usize)>>;

/// Reference answer of a search from `pos`: None (no match) or the groups 0..=n.  Err(()) = step limit blown.
pub fn reference(e: &R, text: &str, pos: usize) -> Result<Option<Caps>, ()> {
    let n = count_groups(e);
    let mut start = pos;
    loop {
        let mut m = M { text, caps: vec![None; n], keep: None, steps: 0, blown: false };
        let mut end = None;
        let ok = m.m(e, 0, start, &mut |_s, e| {
            end = Some(e);
            true
        });
        if m.blown {
            return Err(());
        }
        if ok {
            let e = end.unwrap();
            let s = m.keep.unwrap_or(start).min(e);
            let mut out = vec![Some((s, e))];
            out.extend(m.caps.iter().cloned());
            return Ok(Some(out));
        }
        if start >= text.len() {
            return Ok(None);
        }
        start += text[start..].chars().next().unwrap().len_utf8();
    }
}

// ---------------------------------------------------------------- the real crate

pub fn real(re: &Regex, text: &str, pos: usize) -> Result<Option<Caps>, String> {
    match catch_unwind(AssertUnwindSafe(|| re.captures_from_pos(text, pos))) {
        Err(_) => Err("panic in captures_from_pos".into()),
        Ok(Err(e)) => Err(format!("search error {:?}", e)),
        Ok(Ok(None)) => Ok(None),
        Ok(Ok(Some(c))) => Ok(Some((0..c.len()).map(|i| c.get(i).map(|m| (m.start(), m.end()))).collect())),
    }
}

// ---------------------------------------------------------------- generator

struct Rng(u64);
impl Rng {
    fn next(&mut self) -> u64 {
        // splitmix64
        self.0 = self.0.wrapping_add(0x9E3779B97F4A7C15);
        let mut z = self.0;
        z = (z ^ (z >> 30)).wrapping_mul(0xBF58476D1CE4E5B9);
        z = (z ^ (z >> 27)).wrapping_mul(0x94D049BB133111EB);
        z ^ (z >> 31)
    }
    fn below(&mut self, n: usize) -> usize {
        (self.next() % n as u64) as usize
    }
}

struct Gen {
    rng: Rng,
    /// groups already closed (may be back-referenced / tested)
    closed: usize,
    /// groups opened so far
    opened: usize,
}

#[derive(Clone, Copy)]
struct Ctx {
    depth: usize,
    in_look: bool,
    /// directly inside an atomic group / a conditional's condition (no conditional here: KF2)
    no_cond: bool,
    /// inside a look-behind: constant size per alternative required, no back-references
    behind: bool,
}

impl Gen {
    fn atom(&mut self) -> R {
        match self.rng.below(25) {
            0..=4 => R::Lit('a'),
            5..=7 => R::Lit('b'),
            8..=10 => R::Any,
            11..=12 => R::Class(vec!['a', 'b'], false),
            13 => R::Class(vec!['a'], true),
            14..=15 => R::Lit('é'),
            16 => R::Lit('-'),
            17 => R::AnyNl,
            18 => R::LitCi('a'),
            19 => R::LitCi('b'),
            20 => R::AnyNegS,
            21 => R::LitNegI('a'),
            22 => R::Lit('\n'),
            23 => R::LitCi('é'),
            // a titlecase letter: neither lowercase nor uppercase, but it has both case variants
            _ => R::LitCi('\u{1c5}'),
        }
    }

    fn quant(&mut self) -> (usize, Option<usize>, Mode) {
        let (lo, hi) = match self.rng.below(10) {
            8 => (1, Some(1)),
            9 => (0, Some(2)),
            0 | 1 => (0, None),
            2 | 3 => (1, None),
            4 => (0, Some(1)),
            5 => (2, Some(2)),
            6 => (1, Some(2)),
            _ => (2, None),
        };
        let mode = match self.rng.below(6) {
            0 | 1 | 2 => Mode::Greedy,
            3 | 4 => Mode::Lazy,
            _ => Mode::Possessive,
        };
        (lo, hi, mode)
    }

    fn expr(&mut self, cx: Ctx) -> R {
        if cx.depth == 0 {
            return self.atom();
        }
        let d = Ctx { depth: cx.depth - 1, no_cond: false, ..cx };
        let pick = self.rng.below(30);
        match pick {
            0..=3 => self.atom(),
            4..=8 => {
                let n = 2 + self.rng.below(2);
                R::Cat((0..n).map(|_| self.expr(d)).collect())
            }
            9..=11 => {
                let n = 2 + self.rng.below(2);
                let v: Vec<R> = (0..n).map(|_| if self.rng.below(8) == 0 { R::Empty } else { self.expr(d) }).collect();
                R::Alt(v)
            }
            12..=14 => {
                let opened = self.opened;
                self.opened += 1;
                let c = self.expr(d);
                // the group closes here; groups inside it closed before
                self.closed = self.closed.max(opened + 1);
                // NB: closed counts a prefix of group numbers only when inner groups are closed too, which holds (pre-order)
                R::Group(Box::new(c))
            }
            15..=18 => {
                let before = (self.opened, self.closed);
                let c = self.expr(d);
                let (lo, hi, mode) = self.quant();
                let (mn, _) = lens(&c);
                if cx.behind && (hi != Some(lo)) {
                    // variable length not allowed in look-behind: make it a fixed count
                    return R::Rep(Box::new(c), lo.max(1), Some(lo.max(1)), Mode::Greedy);
                }
                if mn == 0 && hi.is_none() {
                    // F1 exclusion: unbounded repeat of a body that can match empty
                    let _ = before;
                    return R::Rep(Box::new(c), 0, Some(1), mode);
                }
                R::Rep(Box::new(c), lo, hi, mode)
            }
            19..=21 => {
                let kind = match self.rng.below(4) {
                    0 => LookKind::Ahead,
                    1 => LookKind::AheadNeg,
                    2 => LookKind::Behind,
                    _ => LookKind::BehindNeg,
                };
                let behind = matches!(kind, LookKind::Behind | LookKind::BehindNeg);
                let closed0 = self.closed;
                let opened0 = self.opened;
                let c = self.expr(Ctx { in_look: true, behind: cx.behind || behind, ..d });
                if matches!(kind, LookKind::AheadNeg | LookKind::BehindNeg) {
                    // groups inside a negative look-around never hold anything afterwards; do not reference them
                    let _ = opened0;
                    self.closed = closed0;
                    // (group numbers inside stay allocated: opened is not rolled back)
                }
                R::Look(Box::new(c), kind)
            }
            22..=23 => R::Atomic(Box::new(self.expr(Ctx { no_cond: true, ..d }))),
            24..=25 => {
                if self.closed > 0 && !cx.behind {
                    R::Backref(1 + self.rng.below(self.closed))
                } else {
                    self.atom()
                }
            }
            26 => {
                if cx.in_look || cx.behind {
                    self.atom()
                } else {
                    R::KeepOut
                }
            }
            27 => match self.rng.below(12) {
                0 => R::Start,
                1 => R::End,
                2 => R::WordB,
                3 => if self.rng.below(2) == 0 { R::WordStart } else { R::WordEnd },
                4 => R::NotWordB,
                5 => R::StartA,
                6 => R::EndZ,
                7 => R::EndZm,
                8 => R::MlStart,
                9 => R::MlEnd,
                10 => R::StartNegM,
                _ => R::StartAm,
            },
            _ => {
                if cx.no_cond {
                    return self.atom();
                }
                if self.closed > 0 && self.rng.below(8) == 0 {
                    return R::GroupTest(1 + self.rng.below(self.closed));
                }
                if self.closed > 0 && self.rng.below(3) != 0 {
                    let n = 1 + self.rng.below(self.closed);
                    let t = if self.rng.below(6) == 0 { R::Empty } else { self.expr(d) };
                    let f = if self.rng.below(4) == 0 { R::Empty } else { self.expr(d) };
                    R::CondGroup(n, Box::new(t), Box::new(f))
                } else {
                    let c = self.expr(Ctx { depth: d.depth.min(1), no_cond: true, ..d });
                    let t = if self.rng.below(6) == 0 { R::Empty } else { self.expr(d) };
                    let f = if self.rng.below(4) == 0 { R::Empty } else { self.expr(d) };
                    R::CondExpr(Box::new(c), Box::new(t), Box::new(f))
                }
            }
        }
    }
}

/// well-formedness the generator cannot guarantee locally, and the documented exclusions; such patterns are skipped
fn acceptable(e: &R) -> bool {
    // `cut`: somewhere below an atomic group, a possessive repeat, a positive look-around or a conditional's condition,
    // i.e. below a construct that ends with a commit on the explicit stack.  A conditional there is finding KF2.
    fn walk(e: &R, open: &mut Vec<usize>, next: &mut usize, ok: &mut bool, cut: bool) {
        match e {
            R::Cat(v) | R::Alt(v) => v.iter().for_each(|c| walk(c, open, next, ok, cut)),
            R::Group(c) => {
                let g = *next;
                *next += 1;
                open.push(g);
                walk(c, open, next, ok, cut);
                open.pop();
            }
            R::Rep(c, _, _, mode) => walk(c, open, next, ok, cut || *mode == Mode::Possessive),
            R::Look(c, k) => walk(c, open, next, ok, cut || matches!(k, LookKind::Ahead | LookKind::Behind)),
            R::Atomic(c) => walk(c, open, next, ok, true),
            R::Backref(n) => {
                if open.contains(&(n - 1)) || *n > *next {
                    *ok = false;
                }
            }
            R::GroupTest(n) => {
                if open.contains(&(n - 1)) || *n > *next {
                    *ok = false;
                }
            }
            R::CondGroup(n, t, f) => {
                if cut || open.contains(&(n - 1)) || *n > *next {
                    *ok = false;
                }
                walk(t, open, next, ok, cut);
                walk(f, open, next, ok, cut);
            }
            R::CondExpr(c, t, f) => {
                // a condition that is exactly one back-reference escape is read by the parser as the group test `(?(N)..)`:
                // that spelling belongs to neither documented form, it is left out
                if cut || matches!(**c, R::Backref(_)) {
                    *ok = false;
                }
                walk(c, open, next, ok, true);
                walk(t, open, next, ok, cut);
                walk(f, open, next, ok, cut);
            }
            _ => {}
        }
    }
    let mut ok = true;
    walk(e, &mut vec![], &mut 0, &mut ok, false);
    ok
}

/// hand-picked shapes that every run covers first (each construct in greedy / lazy / tail / non-tail position)
fn fixed_patterns() -> Vec<R> {
    use R::*;
    let a = || Lit('a');
    let b = || Lit('b');
    let c = || Lit('c');
    let bx = |e: R| Box::new(e);
    let plus = |e: R| Rep(Box::new(e), 1, None, Mode::Greedy);
    let star = |e: R| Rep(Box::new(e), 0, None, Mode::Greedy);
    let opt = |e: R| Rep(Box::new(e), 0, Some(1), Mode::Greedy);
    let mut v = vec![];
    // class members that are special only inside a class (escaped `-` between two members that would form a range, escaped `&&`, `~~`),
    // and a case-insensitive non-ASCII literal -- in the plain and in the hex-escaped spelling (added after seeded/C01-17, C01-18)
    v.push(Class(vec!['a', '-', 'c'], false));
    v.push(Cat(vec![Class(vec!['a', '-', 'c'], false), Look(bx(b()), LookKind::Ahead)]));
    v.push(Class(vec!['a', 'b', '&', '&', 'b', 'c'], false));
    v.push(Class(vec!['a', '~', '~', 'b'], true));
    v.push(Cat(vec![LitCi('é'), Look(bx(b()), LookKind::AheadNeg)]));
    v.push(LitCi('é'));
    v.push(Cat(vec![Lit('é'), Class(vec!['-', 'é'], false)]));
    // repeats of hard bodies in tail position of atomic groups / look-arounds
    for (lo, hi) in [(2, Some(2)), (1, Some(2)), (1, None), (0, None), (2, None)] {
        for mode in [Mode::Greedy, Mode::Lazy] {
            let body = Cat(vec![Look(bx(a()), LookKind::Ahead), plus(a())]);
            let body2 = Cat(vec![Look(bx(b()), LookKind::AheadNeg), plus(Class(vec!['a', 'b'], false))]);
            v.push(Atomic(bx(Rep(bx(body.clone()), lo, hi, mode.clone()))));
            v.push(Cat(vec![Look(bx(Rep(bx(body2.clone()), lo, hi, mode.clone())), LookKind::Ahead), a()]));
            v.push(Cat(vec![Rep(bx(body.clone()), lo, hi, mode.clone()), a()]));
            v.push(Cat(vec![Group(bx(Rep(bx(body2), lo, hi, mode.clone()))), Backref(1)]));
        }
    }
    // a commit directly inside a commit, followed by an easy suffix that fails after the first choice: the inner cut is not redundant
    {
        let choice = || Alt(vec![Group(bx(a())), Cat(vec![a(), b()])]);
        let inner: Vec<R> = vec![Atomic(bx(choice())), Rep(bx(choice()), 0, Some(1), Mode::Possessive), Rep(bx(choice()), 1, None, Mode::Possessive)];
        for i in &inner {
            let body = Cat(vec![i.clone(), c()]);
            v.push(Cat(vec![Atomic(bx(body.clone())), opt(Backref(1))]));
            v.push(Cat(vec![Look(bx(body.clone()), LookKind::Ahead), a(), b(), opt(Backref(1))]));
            v.push(Cat(vec![Rep(bx(body.clone()), 1, Some(2), Mode::Possessive), opt(Backref(1))]));
            v.push(Cat(vec![Atomic(bx(Cat(vec![Lit('-'), i.clone(), c()]))), opt(Backref(1))]));
        }
        // word-boundary halves as conditions and next to choices
        for wb in [WordStart, WordEnd, WordB, NotWordB] {
            v.push(CondExpr(bx(wb.clone()), bx(Lit('-')), bx(a())));
            v.push(Cat(vec![Start, CondExpr(bx(wb.clone()), bx(Lit('!')), bx(Lit('-')))]));
            v.push(Cat(vec![plus(Any), wb.clone(), Lit('-')]));
            v.push(Cat(vec![Group(bx(plus(a()))), Lit(' '), CondExpr(bx(wb.clone()), bx(Lit('#')), bx(Lit('+')))]));
        }
    }
    // conditionals: every combination of empty / easy-with-choices / hard branches, followed by something that needs backtracking
    let branches = vec![
        Empty,
        b(),
        star(b()),
        plus(b()),
        Alt(vec![b(), Cat(vec![b(), c()])]),
        Cat(vec![Look(bx(b()), LookKind::Ahead), plus(b())]),
        Cat(vec![b(), Lit('z')]),
    ];
    for t in &branches {
        for f in &branches {
            for tail in [b(), c(), Empty] {
                v.push(Cat(vec![Start, opt(Group(bx(a()))), CondGroup(1, bx(t.clone()), bx(f.clone())), tail.clone(), End]));
                v.push(Cat(vec![Start, CondExpr(bx(a()), bx(t.clone()), bx(f.clone())), tail.clone(), End]));
                v.push(Cat(vec![CondExpr(bx(Look(bx(a()), LookKind::Ahead)), bx(t.clone()), bx(f.clone())), tail.clone()]));
            }
        }
    }
    v
}

fn texts() -> Vec<String> {
    let alpha = ['a', 'b', 'c', 'é', '-'];
    let mut out = vec![String::new()];
    let mut layer = vec![String::new()];
    for _len in 0..4 {
        let mut next = vec![];
        for s in &layer {
            for c in alpha {
                let mut t = s.clone();
                t.push(c);
                next.push(t);
            }
        }
        out.extend(next.iter().cloned());
        layer = next;
    }
    for t in ["ab\nab", "A", "aA", "Ab", "BA", "É", "aÉ", "a\nb", "\n", "a\n", "\na", "ab\n", "a\n\nb", "A\nb", "b\na\n", "\u{1c6}", "\u{1c4}a", "a\u{1c5}", "\u{1c6}b\u{1c4}", "-", "!", "ab +", "ab #", "a -", "- a", "-a-"] {
        out.push(t.into());
    }
    out.push("aabbaabb".into());
    out.push("abcabcabc".into());
    out.push("bbbbbb".into());
    out.push("aaaaaa".into());
    out
}

fn compare(e: &R, pat: &str, re: &Regex, text: &str, budget: &mut Budget) -> Option<(Value, String)> {
    let mut pos = 0;
    loop {
        budget.evals += 1;
        let want = match reference(e, text, pos) {
            Ok(w) => w,
            Err(()) => return None,
        };
        match real(re, text, pos) {
            // the backtrack limit is not part of the reference; such inputs say nothing
            Err(d) if d.contains("BacktrackLimitExceeded") => {}
            Err(d) => return Some((json!({"pattern": pat, "text": text, "pos": pos}), d)),
            Ok(got) => {
                if got != want {
                    return Some((
                        json!({"pattern": pat, "text": text, "pos": pos}),
                        format!("captures_from_pos({:?}, {}) of /{}/ gives groups {:?}, the reference semantics gives {:?}", text, pos, pat, got, want),
                    ));
                }
            }
        }
        if pos >= text.len() {
            return None;
        }
        pos += text[pos..].chars().next().unwrap().len_utf8();
    }
}

/// a size that is constant by construction (fixed-size pieces, fixed counts, equally long alternatives / branches); None = not obviously so
fn clearly_const(e: &R) -> Option<usize> {
    match e {
        R::Empty | R::Start | R::End | R::WordB | R::NotWordB | R::WordStart | R::WordEnd | R::KeepOut | R::Look(..) | R::StartA | R::StartAm | R::EndZ | R::EndZm | R::MlStart | R::MlEnd | R::StartNegM => Some(0),
        R::Lit(_) | R::Any | R::Class(..) | R::AnyNl | R::AnyNegS | R::LitCi(_) | R::LitNegI(_) => Some(1),
        R::Cat(v) => v.iter().map(clearly_const).try_fold(0usize, |a, b| b.map(|b| a + b)),
        R::Alt(v) => {
            let first = clearly_const(v.first()?)?;
            if v.iter().all(|c| clearly_const(c) == Some(first)) { Some(first) } else { None }
        }
        R::Group(c) | R::Atomic(c) => clearly_const(c),
        R::Rep(c, lo, hi, _) => if *hi == Some(*lo) { clearly_const(c).map(|x| x * lo) } else { None },
        R::Backref(_) => None,
        R::GroupTest(_) => Some(0),
        R::CondGroup(_, t, f) => { let a = clearly_const(t)?; if clearly_const(f)? == a { Some(a) } else { None } }
        R::CondExpr(c, t, f) => { let a = clearly_const(c)? + clearly_const(t)?; if clearly_const(f)? == a { Some(a) } else { None } }
    }
}
/// every look-behind body is constant-size by construction (a top-level alternation: alternative by alternative)
fn lookbehinds_clearly_const(e: &R) -> bool {
    let kids_ok = |v: &Vec<R>| v.iter().all(lookbehinds_clearly_const);
    match e {
        R::Cat(v) | R::Alt(v) => kids_ok(v),
        R::Group(c) | R::Atomic(c) | R::Rep(c, ..) => lookbehinds_clearly_const(c),
        R::Look(c, k) => {
            let here = if matches!(k, LookKind::Behind | LookKind::BehindNeg) {
                match &**c {
                    R::Alt(v) => v.iter().all(|a| clearly_const(a).is_some()),
                    other => clearly_const(other).is_some(),
                }
            } else {
                true
            };
            here && lookbehinds_clearly_const(c)
        }
        R::CondGroup(_, t, f) => lookbehinds_clearly_const(t) && lookbehinds_clearly_const(f),
        R::CondExpr(c, t, f) => lookbehinds_clearly_const(c) && lookbehinds_clearly_const(t) && lookbehinds_clearly_const(f),
        _ => true,
    }
}
fn has_refs(e: &R) -> bool {
    match e {
        R::Backref(_) | R::CondGroup(..) | R::GroupTest(_) => true,
        R::Cat(v) | R::Alt(v) => v.iter().any(has_refs),
        R::Group(c) | R::Atomic(c) | R::Rep(c, ..) | R::Look(c, _) => has_refs(c),
        R::CondExpr(c, t, f) => has_refs(c) || has_refs(t) || has_refs(f),
        _ => false,
    }
}

fn check_pattern(e: &R, texts: &[String], budget: &mut Budget) -> Option<(Value, String)> {
    if !acceptable(e) {
        return None;
    }
    // numbered spelling, and -- when the pattern refers to groups -- the spelling with named groups and named references
    // ... and the ESCAPED spelling (3): every literal character and class member written as a `\\x{..}` escape (same tree, same matches)
    let spellings: Vec<u8> = if count_groups(e) > 0 && has_refs(e) { vec![0, 1, 2, 3] } else { vec![0, 3] };
    for named in spellings {
        let pat = render_top(e, named);
        let re = match catch_unwind(AssertUnwindSafe(|| Regex::new(&pat))) {
            Err(_) => return Some((json!({"pattern": pat, "text": "", "pos": 0, "named": named}), "panic in Regex::new".into())),
            Ok(Err(err)) => {
                // patterns the crate refuses are outside the property, except: a look-behind that is constant-size by construction is accepted
                if format!("{:?}", err).contains("LookBehindNotConst") && lookbehinds_clearly_const(e) {
                    return Some((json!({"pattern": pat, "text": "", "pos": 0, "named": named}),
                        "rejected with LookBehindNotConst although every look-behind body is constant-size by construction".into()));
                }
                continue;
            }
            Ok(Ok(re)) => re,
        };
        if re.captures_len() != count_groups(e) + 1 {
            return Some((
                json!({"pattern": pat, "text": "", "pos": 0, "named": named}),
                format!("captures_len() = {} but the pattern has {} groups", re.captures_len(), count_groups(e)),
            ));
        }
        for t in texts {
            if let Some((mut w, d)) = compare(e, &pat, &re, t, budget) {
                w["named"] = json!(named);
                return Some((w, d));
            }
        }
    }
    None
}

/// the rendered pattern of generator coordinates (used by other families as a pattern source)
pub fn rendered(seed: u64, index: u64) -> String {
    render_top(&regenerate(seed, index), 0)
}
pub fn fixed_rendered() -> Vec<String> {
    fixed_patterns().iter().map(|e| render_top(e, 0)).collect()
}

/// parse a witness pattern back: witnesses carry the generator coordinates instead
fn regenerate(seed: u64, index: u64) -> R {
    if seed == u64::MAX {
        return fixed_patterns()[index as usize].clone();
    }
    let mut g = Gen { rng: Rng(seed.wrapping_mul(0x2545F4914F6CDD1D) ^ index), closed: 0, opened: 0 };
    let depth = 2 + (index % 3) as usize;
    g.expr(Ctx { depth, in_look: false, no_cond: false, behind: false })
}

pub struct RefSem;

impl Family for RefSem {
    fn search(&self, budget: &mut Budget, seed: u64) -> Option<(Value, String)> {
        let ts = texts();
        let fixed = if std::env::var("REFSEM_SKIP_FIXED").is_ok() { vec![] } else { fixed_patterns() };
        for (i, e) in fixed.iter().enumerate() {
            if let Some((mut w, d)) = check_pattern(e, &ts, budget) {
                w["gen"] = json!([u64::MAX, i]);
                return Some((w, d));
            }
        }
        // the random part runs on several threads (thread t takes the indices t, t + n, ...); the lowest failing index wins
        let n: u64 = std::env::var("REFSEM_THREADS").ok().and_then(|v| v.parse().ok()).unwrap_or(8);
        let deadline = budget.deadline;
        let results: Vec<(u64, Option<(u64, Value, String)>)> = std::thread::scope(|sc| {
            let hs: Vec<_> = (0..n)
                .map(|t| {
                    let ts = &ts;
                    sc.spawn(move || {
                        let mut b = Budget { deadline, evals: 0 };
                        let mut index = t;
                        while !b.expired() {
                            let e = regenerate(seed, index);
                            if let Some((w, d)) = check_pattern(&e, ts, &mut b) {
                                return (b.evals, Some((index, w, d)));
                            }
                            index += n;
                        }
                        (b.evals, None)
                    })
                })
                .collect();
            hs.into_iter().map(|h| h.join().unwrap_or((0, None))).collect()
        });
        let mut best: Option<(u64, Value, String)> = None;
        for (ev, r) in results {
            budget.evals += ev;
            if let Some(r) = r {
                if best.as_ref().map_or(true, |b| r.0 < b.0) {
                    best = Some(r);
                }
            }
        }
        if let Some((index, mut w, d)) = best {
            w["gen"] = json!([seed, index]);
            return Some((w, d));
        }
        None
    }

    fn run(&self, w: &Value) -> Option<String> {
        let gen = w["gen"].as_array()?;
        let e = regenerate(gen[0].as_u64()?, gen[1].as_u64()?);
        let pat = render_top(&e, w["named"].as_u64().unwrap_or(0) as u8);
        if Some(pat.as_str()) != w["pattern"].as_str() {
            return Some(format!("witness does not regenerate (got /{}/)", pat));
        }
        let text = w["text"].as_str()?.to_string();
        let mut b = Budget { deadline: std::time::Instant::now() + std::time::Duration::from_secs(60), evals: 0 };
        check_pattern(&e, &[text], &mut b).map(|x| x.1)
    }
}
