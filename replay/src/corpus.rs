//! Shared small corpus of patterns and texts for the replay families.
pub fn patterns() -> Vec<&'static str> {
    vec![
        // plain (delegated as a whole)
        "a", "ab", "a*", "a+", "a?", "", "a|b", "a|ab", "[ab]+", r"\d+", r"\d*", r"\b", r"\w+", "é", ".", "(a)(b)?", "^", "$", "x*", ",", " +",
        // fancy (VM)
        r"(?=a)", r"(?!a)", r"(?!x)", r"(?<=a)", r"(?<!a)", r"(?<=a)b", r"(?<=x)x", r"a(?=b)", r"(a)\1", r"(a*)\1", r"(?>a+)b", r"(?>a|ab)c",
        r"\G\d*", r"\Ga*", r"\Ga", r"\G(\d*)", r"\G", r"a\Kb", r"\Ka", r"(?<=\Ka)", r"(?<=\Kab)", r"a|(?<=\Ka)b", r"(?<=a\Kb)c",
        r"(?(?=a)a|b)", r"(a)?(?(1)b|c)", r"(?:(?(a)b))*", r"(?:a|(?=b))*", r"(?:a?)*?b", r"(a|b)*?\1", r"(?=(a+))a*b\1", r"(?<=é)a", r"(?<!é)€",
        r"(?:(?=(\1?a))aaa)+", r"(?i)(a)\1", r"(?m)^(?=a)", r"(?<=\b)a", r"\b(?=a)", r"(?=.)", r"(?=\d)\d*", r"(x+x+)+(?=y)|\z", r"(a*)*(?=b)|$",
    ]
}

pub fn texts() -> Vec<&'static str> {
    vec![
        "", "a", "b", "ab", "ba", "aa", "aaa", "abab", "aab", "abc", "xxx", "aaaaaa", "12 34", " 11", "1122 33", "baa", "a,b,,c", "é", "éa€", "aé", "€a", "café,tea",
        "a b", "ab ab", "xxxxxxxxxy", "xxxxxxxxxx", "aaaaaaaac", "123", "a-", "ca-", "dx", "\n", "a\nb", "😀a",
    ]
}

/// generated patterns for the time left after a family's own corpus: the reference matcher's pseudo-random patterns (seeded),
/// each also with a `\G` alternative in front / behind (the iterator / split / replace properties hinge on `\G` and empty matches)
pub fn generated(seed: u64, index: u64) -> Vec<String> {
    let p = crate::refsem::rendered(seed, index);
    vec![format!("\\G(?:{})", p), format!("\\G[a-z]|{}", p), format!("{}|\\G", p), p]
}
pub fn small_texts() -> Vec<&'static str> {
    vec!["", "a", "ab", "ba", "aab", "abab", "a-b", "éa", "aéb", "b1a", "ab\nab", "a1", "1a2b", "12é34"]
}
