//! Shared small corpus of patterns and texts for the replay families.
pub fn patterns() -> Vec<&'static str> {
    vec![
        // plain (delegated as a whole)
        "a", "ab", "a*", "a+", "a?", "", "a|b", "a|ab", "[ab]+", r"\d+", r"\d*", r"\b", r"\w+", "é", ".", "(a)(b)?", "^", "$", "x*", ",", " +",
        // fancy (VM)
        r"(?=a)", r"(?!a)", r"(?!x)", r"(?<=a)", r"(?<!a)", r"(?<=a)b", r"(?<=x)x", r"a(?=b)", r"(a)\1", r"(a*)\1", r"(?>a+)b", r"(?>a|ab)c",
        r"\G\d*", r"\Ga*", r"\Ga", r"\G(\d*)", r"\G", r"a\Kb", r"\Ka", r"(?<=\Ka)", r"(?<=\Kab)", r"a|(?<=\Ka)b", r"(?<=a\Kb)c",
        r"(?(?=a)a|b)", r"(a)?(?(1)b|c)", r"(?:(?(a)b))*", r"(?:a|(?=b))*", r"(?:a?)*?b", r"(a|b)*?\1", r"(?=(a+))a*b\1", r"(?<=é)a", r"(?<!é)€",
        r"(?:(?=(\1?a))aaa)+", r"(?i)(a)\1", r"(?m)^(?=a)", r"(?<=\b)a", r"\b(?=a)", r"(?=.)", r"(?=\d)\d*", r"(x+x+)+(?=y)|\z", r"(a*)*(?=b)|$",
    ]
}

pub fn texts() -> Vec<&'static str> {
    vec![
        "", "a", "b", "ab", "ba", "aa", "aaa", "abab", "aab", "abc", "xxx", "aaaaaa", "12 34", " 11", "1122 33", "baa", "a,b,,c", "é", "éa€", "aé", "€a", "café,tea",
        "a b", "ab ab", "xxxxxxxxxy", "xxxxxxxxxx", "aaaaaaaac", "123", "a-", "ca-", "dx", "\n", "a\nb", "😀a",
    ]
}
