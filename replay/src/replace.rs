//! Family `replace` (bounded, C11): try_replacen of the real crate against the statement of the property, computed from the real
//! find_iter / captures_iter sequences: the first n matches are replaced by the replacer's output, every other byte is unchanged,
//! the input is borrowed iff there is no match, equivalent replacers give identical results, a search error is returned as Err.
use crate::corpus;
use crate::{Budget, Family};
use fancy_regex::{Captures, NoExpand, Regex, RegexBuilder};
use serde_json::{json, Value};
use std::borrow::Cow;
use std::panic::{catch_unwind, AssertUnwindSafe};

pub struct Replace;

fn templates() -> Vec<&'static str> {
    vec!["", "X", "-é-", "$0", "[$1]", "${1}x", "$$", "$0$0", "${n}", "$n!", "a$", "\\1", "$\u{540d}", "[$\u{f1}]", "$\u{e9}mail/$\u{540d}", "$-1", "$-", "$\u{b2}", "$ $"]
}

fn check(pattern: &str, text: &str, bl: Option<usize>) -> Option<String> {
    match catch_unwind(AssertUnwindSafe(|| check_inner(pattern, text, bl))) {
        Ok(x) => x,
        Err(_) => Some("panic in the real crate".into()),
    }
}

fn expected(text: &str, caps: &[Captures<'_>], limit: usize, rep: &dyn Fn(&Captures<'_>) -> String) -> String {
    let mut out = String::new();
    let mut last = 0;
    for (i, c) in caps.iter().enumerate() {
        if limit > 0 && i >= limit {
            break;
        }
        let m = c.get(0).unwrap();
        out.push_str(&text[last..m.start()]);
        out.push_str(&rep(c));
        last = m.end();
    }
    out.push_str(&text[last..]);
    out
}

fn check_inner(pattern: &str, text: &str, bl: Option<usize>) -> Option<String> {
    let re = match bl {
        None => Regex::new(pattern),
        Some(l) => RegexBuilder::new(pattern).backtrack_limit(l).build(),
    };
    let re = match re {
        Ok(r) => r,
        Err(_) => return None,
    };
    let all: Vec<_> = re.captures_iter(text).take(3 * text.len() + 8).collect();
    let err_at = all.iter().position(|c| c.is_err());
    for limit in 0..=3usize {
        // which matches does this call consume? an error among them (or reached while peeking) must surface as Err
        let consumed = if limit == 0 { all.len() } else { all.len().min(limit + 1) };
        let must_err = err_at.map_or(false, |e| e < consumed.max(1));
        for t in templates() {
            let got = re.try_replacen(text, limit, t);
            if !t.contains('$') {
                // "a template without `$`, NoExpand of the same string and a closure returning it give identical results": also WHETHER the
                // result is an error (a search error met while looking one match past the limit included)
                let a = re.try_replacen(text, limit, NoExpand(t)).map(|c| c.into_owned()).map_err(|e| format!("{:?}", e));
                let b = re.try_replacen(text, limit, |_: &Captures<'_>| t.to_string()).map(|c| c.into_owned()).map_err(|e| format!("{:?}", e));
                let g = re.try_replacen(text, limit, t).map(|c| c.into_owned()).map_err(|e| format!("{:?}", e));
                if a != g || b != g {
                    return Some(format!("limit {}: template {:?} / NoExpand / closure disagree: {:?} / {:?} / {:?}", limit, t, g, a, b));
                }
            }
            if must_err {
                if got.is_ok() && err_at == Some(0) {
                    return Some(format!("search error swallowed: try_replacen({:?}, {}, {:?}) = {:?}", text, limit, t, got));
                }
                continue;
            }
            if err_at.is_some() {
                continue;
            }
            let caps: Vec<Captures<'_>> = re.captures_iter(text).map(|c| c.unwrap()).collect();
            let want = expected(text, &caps, limit, &|c| {
                let mut d = String::new();
                c.expand(t, &mut d);
                d
            });
            match &got {
                Err(e) => return Some(format!("try_replacen({:?}, {}, {:?}) = Err({:?}) although no search fails", text, limit, t, e)),
                Ok(g) => {
                    if g.as_ref() != want {
                        return Some(format!("try_replacen({:?}, {}, {:?}) = {:?}, expected {:?}", text, limit, t, g, want));
                    }
                    let borrowed = matches!(g, Cow::Borrowed(_));
                    if borrowed != caps.is_empty() {
                        return Some(format!("try_replacen({:?}, {}, {:?}): borrowed = {}, matches = {}", text, limit, t, borrowed, caps.len()));
                    }
                }
            }
            if !t.contains('$') {
                let a = re.try_replacen(text, limit, NoExpand(t)).map(|c| c.into_owned());
                let b = re.try_replacen(text, limit, |_: &Captures<'_>| t.to_string()).map(|c| c.into_owned());
                let g = got.map(|c| c.into_owned());
                if a.as_ref().ok() != g.as_ref().ok() || b.as_ref().ok() != g.as_ref().ok() {
                    return Some(format!("template {:?}, NoExpand and closure disagree: {:?} / {:?} / {:?}", t, g, a, b));
                }
            } else {
                let a = re.try_replacen(text, limit, NoExpand(t)).map(|c| c.into_owned());
                let want_ne = expected(text, &caps, limit, &|_| t.to_string());
                if a.as_ref().ok() != Some(&want_ne) {
                    return Some(format!("NoExpand({:?}) gives {:?}, expected {:?}", t, a, want_ne));
                }
            }
        }
        // identity closure: the text is unchanged
        if err_at.is_none() {
            let id = re.try_replacen(text, limit, |c: &Captures<'_>| c.get(0).unwrap().as_str().to_string());
            if id.as_ref().map(|c| c.as_ref()).ok() != Some(text) {
                return Some(format!("identity replacer changes the text: {:?}", id));
            }
        }
    }
    None
}

fn extra_patterns() -> Vec<&'static str> {
    vec![r"(?<n>a)(?=b)", r"(a)|(?<n>b)(?!c)", r"(?<n>\d)?x(?=.)", r"(?<=a)(?<n>b)?", r"a|(?:b+b+)+(?=c)", r"(a)|(?:b+b+)+(?=c)"]
}

impl Family for Replace {
    fn search(&self, budget: &mut Budget, seed: u64) -> Option<(Value, String)> {
        let mut pats = corpus::patterns();
        pats.extend(extra_patterns());
        for bl in [None, Some(1usize), Some(3)] {
            for p in &pats {
                let mut texts = corpus::texts();
                texts.extend(vec!["a-a-bbbbbbbbbbbb", "a-bbbbbbbbbbbb", "bbbbbbbbbbbb-a"]);
                for t in texts {
                    budget.evals += 1;
                    if let Some(d) = check(p, t, bl) {
                        return Some((json!({"pattern": p, "text": t, "backtrack_limit": bl}), d));
                    }
                    if budget.expired() {
                        return None;
                    }
                }
            }
        }
        // the rest of the budget: generated patterns
        let mut index = 0u64;
        while !budget.expired() {
            for p in corpus::generated(seed, index) {
                for t in corpus::small_texts() {
                    for bl in [None, Some(3usize)] {
                        budget.evals += 1;
                        if let Some(d) = check(&p, t, bl) {
                            return Some((json!({"pattern": p, "text": t, "backtrack_limit": bl}), d));
                        }
                    }
                }
            }
            index += 1;
        }
        None
    }
    fn run(&self, w: &Value) -> Option<String> {
        check(w["pattern"].as_str()?, w["text"].as_str()?, w["backtrack_limit"].as_u64().map(|x| x as usize))
    }
}
