//! Family `parse` (bounded): Regex::new on token sequences never panics, a parse-error position is at most the pattern
//! length, and every group number recorded in the back-reference set is below the pattern length (C06).
use crate::{Budget, Family};
use fancy_regex::{Error, Expr, Regex};
use serde_json::{json, Value};
use std::panic::{catch_unwind, AssertUnwindSafe};

pub struct Parse;

fn vocab() -> Vec<&'static str> {
    vec![
        "a", "é", "€", ".", "*", "+", "?", "|", "(", ")", "(?:", "(?=", "(?!", "(?<=", "(?<!", "(?>", "(?<n>", "(?P<n>", "[", "]", "[^", "{", "}", "{2}", "{2,",
        "{18446744073709551615}", "{18446744073709551616}", "{18446744073709551619}", "\\18446744073709551616", "(?(18446744073709551617)", "{99999999999999999999}", "\\", "\\1", "\\2", "\\k<n>", "\\k<1>", "\\k<-1>", "\\k<99999999999>", "(?P=n)", "\\g<1>", "\\K", "\\G", "\\b", "\\d", "\\x{", "\\x41",
        "\\u0041", "\\p{L}", "(?i)", "(?x)", "(?(1)", "(?(", "(?#", "#", " ", "^", "$", "\\z", "\\A", "\\h", "\\e", "-", ",", "1", "\\Q", "\\", "\u{0e01}", "\\x{100000000}", "\\x{10ffff}", "\\x{110000}", "\\u{fffffffff}", "\\400000000", "\\g400000000", "(?(400000000)", "\\k<400000000>",
        // unfinished counted repeats, closed comments, flag groups, free-spacing tails
        "\\k<-9223372036854775808>", "\\k<-9223372036854775807>", "\\g<-9223372036854775808>", "(?(<-9223372036854775808>)", "\\k<-18446744073709551616>",
        "{2", "{2 ", "(?#c)", "(?i:", "(?x: ", "# t", "\n", "{,2}", "{2,3", "(?<n>a)", "(?(<n>)", "(?'n'", "\\k'n'",
        // escape and group heads cut off before their argument (they end the pattern when they come last): added after seeded/C06-20
        "\\k", "\\g", "\\p", "\\P", "\\x", "\\u", "\\U", "\\k<", "\\k'", "\\g<", "\\g'", "\\p{", "\\x{1", "(?P", "(?P=", "(?<", "(?'",
    ]
}

fn check(p: &str) -> Option<String> {
    crate::MAX_ALLOC.store(0, std::sync::atomic::Ordering::Relaxed);
    let r = check_inner(p);
    if r.is_none() {
        // memory proportional to the pattern: no single allocation of more than 16 MiB for these tiny patterns (the automata engine's own tables stay far below)
        let mx = crate::MAX_ALLOC.load(std::sync::atomic::Ordering::Relaxed);
        // proportional to the pattern: 16 MiB for the engines' fixed tables plus 1 KiB per pattern byte (deep nesting makes the automata
        // engine's parser allocate a few hundred bytes per level)
        if mx > (16 << 20) + 1024 * p.len() {
            return Some(format!("Regex::new on a {}-byte pattern made a single allocation of {} bytes", p.len(), mx));
        }
    }
    r
}

fn check_inner(p: &str) -> Option<String> {
    match catch_unwind(AssertUnwindSafe(|| {
        if let Ok(tree) = Expr::parse_tree(p) {
            if let Some(mx) = tree.backrefs.iter().max() {
                if mx >= p.len().max(1) {
                    return Some(format!("back-reference set contains group {} for a pattern of {} bytes", mx, p.len()));
                }
            }
        }
        match Regex::new(p) {
            Err(Error::ParseError(pos, _)) if pos > p.len() => Some(format!("parse error position {} > pattern length {}", pos, p.len())),
            Ok(re) => {
                // what Regex::new accepts must be runnable: a search on two tiny texts may fail with an Err, never panic (C05 / C06)
                // (a counted repeat with an astronomically large count over an empty-matching body, e.g. `\\K{18446744073709551615}`, makes the VM
                // loop that many times: finite, hence not a violation of the stated properties, but it would never return here)
                let big = p.as_bytes().windows(4).any(|w| w.iter().all(|b| b.is_ascii_digit()));
                if p.len() <= 64 && !big {
                    for t in ["", "a1 \u{e9}b"] {
                        let _ = re.captures(t);
                    }
                }
                None
            }
            _ => None,
        }
    })) {
        Ok(x) => x,
        Err(_) => Some("panic in Regex::new".to_string()),
    }
}

/// patterns nested far deeper than the parser's recursion limit, one per opening construct: Regex::new has to answer (Ok or Err)
/// without exhausting the native stack.  A stack overflow aborts the process, so each is tried in a child process.
fn deep_patterns() -> Vec<Value> {
    let openers: [(&str, &str); 16] = [
        ("(", ")"), ("(?:", ")"), ("(?i:", ")"), ("(?=", ")"), ("(?!", ")"), ("(?<=", ")"), ("(?<!", ")"), ("(?>", ")"), ("(?<n>", ")"),
        ("(?(1)", ")"), ("(?(", "a)b)"), ("(?x:", ")"), ("(?:a|", ")"), ("(?:a", ")*"), ("[", "]"), ("[a&&[", "]]"),
    ];
    let mut out = vec![];
    for (o, c) in openers {
        for n in [100usize, 300, 200_000] {
            out.push(json!({"deep": {"open": o, "close": c, "n": n, "closed": true}}));
            out.push(json!({"deep": {"open": o, "close": c, "n": n, "closed": false}}));
        }
    }
    // long FLAT patterns (no nesting at all): tens of thousands of alternatives / pieces / repeats at one level must not cost native stack
    for unit in ["a|", "(?:a)|", "a", "a*", "\\d|", "a{2}"] {
        out.push(json!({"deep": {"open": unit, "close": "", "n": 60_000, "closed": true}}));
    }
    out
}

/// the pattern a witness stands for (deep patterns are megabytes long: the witness keeps the generator form)
fn pattern_of(w: &Value) -> Option<String> {
    if let Some(d) = w.get("deep") {
        let n = d["n"].as_u64()? as usize;
        let o = d["open"].as_str()?;
        let c = d["close"].as_str()?;
        return Some(if d["closed"].as_bool()? { format!("{}a{}", o.repeat(n), c.repeat(n)) } else { o.repeat(n) });
    }
    Some(w["pattern"].as_str()?.to_string())
}

fn in_child(w: &Value) -> Option<String> {
    let exe = match std::env::current_exe() {
        Ok(e) => e,
        Err(e) => return Some(format!("cannot find own executable: {}", e)),
    };
    let out = match std::process::Command::new(exe).args(["run", "parse", &w.to_string()]).env("FR_REPLAY_CHILD", "1").output() {
        Ok(o) => o,
        Err(e) => return Some(format!("cannot start the child process: {}", e)),
    };
    if out.status.success() {
        return None;
    }
    if out.status.code() == Some(1) {
        // the child reports an ordinary failure
        let so = String::from_utf8_lossy(&out.stdout).to_string();
        return Some(format!("child: {}", so.trim()));
    }
    let se = String::from_utf8_lossy(&out.stderr);
    Some(format!("Regex::new killed the process ({:?}): {}", out.status, se.lines().last().unwrap_or("")))
}

struct Rng(u64);
impl Rng {
    fn next(&mut self) -> u64 {
        self.0 = self.0.wrapping_add(0x9E3779B97F4A7C15);
        let mut z = self.0;
        z = (z ^ (z >> 30)).wrapping_mul(0xBF58476D1CE4E5B9);
        z = (z ^ (z >> 27)).wrapping_mul(0x94D049BB133111EB);
        z ^ (z >> 31)
    }
}

impl Family for Parse {
    fn search(&self, budget: &mut Budget, seed: u64) -> Option<(Value, String)> {
        let v = vocab();
        // (1) deep nesting, in child processes
        for w in deep_patterns() {
            budget.evals += 1;
            if let Some(d) = in_child(&w) {
                return Some((w, d));
            }
        }
        // (1b) literal pieces in every kind of host: groups of plain characters nested in groups, next to more plain characters, as the whole
        // body of a look-around / atomic group / repeat, with flag groups -- what compile_delegate(s) turn into ONE Lit or Delegate instruction
        let bodies = ["(?:ab)c", "a(?:bc)", "(?:(?:ab)c)d", "(?:a(?:bc))d", "(?i:ab)c", "(?-i:ab)c", "(?s:ab)c", "(?:a)(?:b)", "(?:ab)", "ab", "(?i)ab(?-i)cd",
            "(?:a|b)c", "(?:ab){2}c", "\u{e9}(?:\u{20ac}a)", "(?:\u{e9}\u{20ac})a", "(?x: a b ) c", "(?:ab)(?:cd)(?:ef)", "(?:(?:(?:a)b)c)d", "a(?:b(?:c(?:d)))"];
        let hosts = ["{}", "(?={})", "x(?!{})", "(?>{})d", "(?<={})d", "(?<!{})d", "(\\w)\\1{}", "(?:{})+\\1", "(x)?(?(1){}|y)", "(?:{})*+z\\b", "\\G{}\\K", "(?i){}(?<=x)", "({})\\1"];
        for h in hosts.iter() {
            for b in bodies.iter() {
                let s = h.replace("{}", b);
                budget.evals += 1;
                if let Some(d) = check(&s) {
                    return Some((json!({"pattern": s}), d));
                }
            }
        }
        // (2) seeded random sequences of 4..8 tokens: a fixed share of the budget, so that the exhaustive part below keeps most of it
        let total = budget.deadline.saturating_duration_since(std::time::Instant::now());
        let random_until = std::time::Instant::now() + total / 4;
        let mut rng = Rng(seed ^ 0xC06);
        while std::time::Instant::now() < random_until {
            for _ in 0..256 {
                let len = 4 + (rng.next() % 5) as usize;
                let s: String = (0..len).map(|_| v[(rng.next() % v.len() as u64) as usize]).collect();
                budget.evals += 1;
                if let Some(d) = check(&s) {
                    return Some((json!({"pattern": s}), d));
                }
            }
        }
        // (3) exhaustive: all sequences of up to 3 tokens
        for len in 1..=3usize {
            let mut idx = vec![0usize; len];
            loop {
                let s: String = idx.iter().map(|&i| v[i]).collect();
                budget.evals += 1;
                if let Some(d) = check(&s) {
                    return Some((json!({"pattern": s}), d));
                }
                if budget.evals % 64 == 0 && budget.expired() {
                    return None;
                }
                let mut p = len;
                let mut done = false;
                loop {
                    if p == 0 {
                        done = true;
                        break;
                    }
                    p -= 1;
                    idx[p] += 1;
                    if idx[p] < v.len() {
                        break;
                    }
                    idx[p] = 0;
                }
                if done {
                    break;
                }
            }
        }
        None
    }
    fn run(&self, w: &Value) -> Option<String> {
        let p = pattern_of(w)?;
        if w.get("deep").is_some() && std::env::var("FR_REPLAY_CHILD").is_err() {
            return in_child(w);
        }
        check(&p)
    }
}
