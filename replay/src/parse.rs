//! Family `parse` (bounded): Regex::new on token sequences never panics, a parse-error position is at most the pattern
//! length, and every group number recorded in the back-reference set is below the pattern length (C06).
use crate::{Budget, Family};
use fancy_regex::{Error, Expr, Regex};
use serde_json::{json, Value};
use std::panic::{catch_unwind, AssertUnwindSafe};

pub struct Parse;

fn vocab() -> Vec<&'static str> {
    vec![
        "a", "é", "€", ".", "*", "+", "?", "|", "(", ")", "(?:", "(?=", "(?!", "(?<=", "(?<!", "(?>", "(?<n>", "(?P<n>", "[", "]", "[^", "{", "}", "{2}", "{2,",
        "{18446744073709551615}", "{99999999999999999999}", "\\", "\\1", "\\2", "\\k<n>", "\\k<1>", "\\k<-1>", "\\k<99999999999>", "(?P=n)", "\\g<1>", "\\K", "\\G", "\\b", "\\d", "\\x{", "\\x41",
        "\\u0041", "\\p{L}", "(?i)", "(?x)", "(?(1)", "(?(", "(?#", "#", " ", "^", "$", "\\z", "\\A", "\\h", "\\e", "-", ",", "1", "\\Q", "\\", "\u{0e01}", "\\x{100000000}", "\\x{10ffff}", "\\x{110000}", "\\u{fffffffff}", "\\400000000", "\\g400000000", "(?(400000000)", "\\k<400000000>",
    ]
}

fn check(p: &str) -> Option<String> {
    crate::MAX_ALLOC.store(0, std::sync::atomic::Ordering::Relaxed);
    let r = check_inner(p);
    if r.is_none() {
        // memory proportional to the pattern: no single allocation of more than 16 MiB for these tiny patterns (the automata engine's own tables stay far below)
        let mx = crate::MAX_ALLOC.load(std::sync::atomic::Ordering::Relaxed);
        if mx > (16 << 20) {
            return Some(format!("Regex::new on a {}-byte pattern made a single allocation of {} bytes", p.len(), mx));
        }
    }
    r
}

fn check_inner(p: &str) -> Option<String> {
    match catch_unwind(AssertUnwindSafe(|| {
        if let Ok(tree) = Expr::parse_tree(p) {
            if let Some(mx) = tree.backrefs.iter().max() {
                if mx >= p.len().max(1) {
                    return Some(format!("back-reference set contains group {} for a pattern of {} bytes", mx, p.len()));
                }
            }
        }
        match Regex::new(p) {
            Err(Error::ParseError(pos, _)) if pos > p.len() => Some(format!("parse error position {} > pattern length {}", pos, p.len())),
            _ => None,
        }
    })) {
        Ok(x) => x,
        Err(_) => Some("panic in Regex::new".to_string()),
    }
}

impl Family for Parse {
    fn search(&self, budget: &mut Budget, _seed: u64) -> Option<(Value, String)> {
        let v = vocab();
        for len in 1..=3usize {
            let mut idx = vec![0usize; len];
            loop {
                let s: String = idx.iter().map(|&i| v[i]).collect();
                budget.evals += 1;
                if let Some(d) = check(&s) {
                    return Some((json!({"pattern": s}), d));
                }
                if budget.evals % 64 == 0 && budget.expired() {
                    return None;
                }
                let mut p = len;
                let mut done = false;
                loop {
                    if p == 0 {
                        done = true;
                        break;
                    }
                    p -= 1;
                    idx[p] += 1;
                    if idx[p] < v.len() {
                        break;
                    }
                    idx[p] = 0;
                }
                if done {
                    break;
                }
            }
        }
        None
    }
    fn run(&self, w: &Value) -> Option<String> {
        check(w["pattern"].as_str()?)
    }
}
