// GENERATED on every run by tools/kani_extract.py -- function text cut verbatim from /repo/src; the #[cfg_attr(kani, ..)] lines are contracts

// lib.rs:1750
#[cfg_attr(kani, kani::ensures(|r: &usize| *r == if b < 0x80 { 1 } else if b < 0xe0 { 2 } else if b < 0xf0 { 3 } else { 4 }))]
pub fn codepoint_len(b: u8) -> usize {
    match b {
        b if b < 0x80 => 1,
        b if b < 0xe0 => 2,
        b if b < 0xf0 => 3,
        _ => 4,
    }
}

// lib.rs:1556
#[cfg_attr(kani, kani::ensures(|r: &bool| *r == matches!(c, '\\' | '.' | '+' | '*' | '?' | '(' | ')' | '|' | '[' | ']' | '{' | '}' | '^' | '$' | '#')))]
pub fn is_special(c: char) -> bool {
    match c {
        '\\' | '.' | '+' | '*' | '?' | '(' | ')' | '|' | '[' | ']' | '{' | '}' | '^' | '$'
        | '#' => true,
        _ => false,
    }
}

// parse.rs:924
#[cfg_attr(kani, kani::ensures(|r: &bool| *r == (b'0' <= b && b <= b'9')))]
pub fn is_digit(b: u8) -> bool {
    b'0' <= b && b <= b'9'
}

// parse.rs:928
#[cfg_attr(kani, kani::ensures(|r: &bool| *r == ((b'0' <= b && b <= b'9') || (b'a' <= b && b <= b'f') || (b'A' <= b && b <= b'F'))))]
pub fn is_hex_digit(b: u8) -> bool {
    is_digit(b) || (b'a' <= (b | 32) && (b | 32) <= b'f')
}

// parse.rs:920
pub fn is_id_char(c: char) -> bool {
    c.is_alphanumeric() || c == '_'
}

// lib.rs:1762
pub fn next_utf8(text: &str, i: usize) -> usize {
    let b = match text.as_bytes().get(i) {
        None => return i + 1,
        Some(&b) => b,
    };
    i + codepoint_len(b)
}

// lib.rs:1738
pub fn prev_codepoint_ix(s: &str, mut ix: usize) -> usize {
    let bytes = s.as_bytes();
    loop {
        ix -= 1;
        // fancy bit magic for ranges 0..0x80 + 0xc0..
        if (bytes[ix] as i8) >= -0x40 {
            break;
        }
    }
    ix
}
