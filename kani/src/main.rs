#![allow(dead_code)]
mod extracted;
use extracted::*;

fn main() {}

#[cfg(kani)]
mod harnesses {
    use super::*;

    /// codepoint_len returns the width implied by the leading byte, for EVERY byte (loop-free: a complete proof)
    #[kani::proof]
    fn codepoint_len_all_bytes() {
        let b: u8 = kani::any();
        let want = if b < 0x80 { 1 } else if b < 0xe0 { 2 } else if b < 0xf0 { 3 } else { 4 };
        assert!(codepoint_len(b) == want);
    }

    /// is_special is exactly the 15-character meta set, for EVERY char
    #[kani::proof]
    fn is_special_all_chars() {
        let c: char = kani::any();
        let want = matches!(c, '\\' | '.' | '+' | '*' | '?' | '(' | ')' | '|' | '[' | ']' | '{' | '}' | '^' | '$' | '#');
        assert!(is_special(c) == want);
    }

    #[kani::proof]
    fn digit_predicates_all_bytes() {
        let b: u8 = kani::any();
        assert!(is_digit(b) == (b'0'..=b'9').contains(&b));
        assert!(is_hex_digit(b) == (b as char).is_ascii_hexdigit());
    }

    /// next_utf8 / prev_codepoint_ix on every valid UTF-8 string of up to 4 bytes: BOUNDED (string length), unwinding 6
    #[kani::proof]
    #[kani::unwind(6)]
    fn utf8_steps_len4() {
        let bytes: [u8; 4] = kani::any();
        let n: usize = kani::any();
        kani::assume(n <= 4);
        if let Ok(s) = core::str::from_utf8(&bytes[..n]) {
            let i: usize = kani::any();
            kani::assume(i <= n && s.is_char_boundary(i));
            let nx = next_utf8(s, i);
            if i < n {
                assert!(nx <= n && s.is_char_boundary(nx) && nx > i);
                let mut j = i + 1;
                while j < nx {
                    assert!(!s.is_char_boundary(j));
                    j += 1;
                }
                assert!(prev_codepoint_ix(s, nx) == i);
            } else {
                assert!(nx == i + 1);
            }
        }
    }
}
