#![allow(dead_code)]
mod extracted;
use extracted::*;

fn main() {}

#[cfg(kani)]
mod harnesses {
    use super::*;

    // Function contracts (attached to the extracted functions by tools/kani_extract.py), each proved for EVERY argument value:
    // loop-free bodies over the full domain, hence complete proofs of the contracts.
    #[kani::proof_for_contract(codepoint_len)]
    fn codepoint_len_all_bytes() {
        let b: u8 = kani::any();
        codepoint_len(b);
    }

    #[kani::proof_for_contract(is_special)]
    fn is_special_all_chars() {
        let c: char = kani::any();
        is_special(c);
    }

    #[kani::proof_for_contract(is_digit)]
    fn is_digit_all_bytes() {
        let b: u8 = kani::any();
        is_digit(b);
    }

    /// is_hex_digit's contract, with is_digit replaced by its verified contract (modular)
    #[kani::proof_for_contract(is_hex_digit)]
    #[kani::stub_verified(is_digit)]
    fn digit_predicates_all_bytes() {
        let b: u8 = kani::any();
        is_hex_digit(b);
    }

    /// next_utf8 / prev_codepoint_ix on every valid UTF-8 string of up to 4 bytes: BOUNDED (string length), unwinding 6
    #[kani::proof]
    #[kani::unwind(6)]
    #[kani::stub_verified(codepoint_len)]
    fn utf8_steps_len4() {
        let bytes: [u8; 4] = kani::any();
        let n: usize = kani::any();
        kani::assume(n <= 4);
        if let Ok(s) = core::str::from_utf8(&bytes[..n]) {
            let i: usize = kani::any();
            kani::assume(i <= n && s.is_char_boundary(i));
            let nx = next_utf8(s, i);
            if i < n {
                assert!(nx <= n && s.is_char_boundary(nx) && nx > i);
                let mut j = i + 1;
                while j < nx {
                    assert!(!s.is_char_boundary(j));
                    j += 1;
                }
                assert!(prev_codepoint_ix(s, nx) == i);
            } else {
                assert!(nx == i + 1);
            }
        }
    }
}
