#!/usr/bin/env python3
"""dbg_arms <unit.rs> <fn-name> <match-header-substr> '<assert text with {PAT}>' -> writes <unit>_dbg.rs with the assert at the end of every block arm"""
import sys
sys.path.insert(0,'/verif/tools')
import rsx
path, fn, hdr, text = sys.argv[1:5]
s=open(path).read()
i=s.index("fn %s(" % fn)
msk=rsx.mask(s)
# find body brace: first '{' at depth 0 after signature's closing paren... use heuristic: the '{' that starts a line after spec
bo=None
j=i
depth=0
while j < len(s):
    if msk[j] in '([': j=rsx.match_close(msk,j)
    elif msk[j]=='{' and s[j-1]=='\n': bo=j; break
    j+=1
bc=rsx.match_close(msk,bo)
body=s[bo:bc+1]
B=rsx.Body(body)
blk=[b for b in B.match_blocks() if hdr in b['header']][0]
ins=[]
for a in B.arms(blk):
    if a['block']:
        ins.append((a['body_end'], '\n '+text.replace('{PAT}', a['pat'][:40].replace('"',''))+'\n'))
for pos,t in sorted(ins,reverse=True):
    body=body[:pos]+t+body[pos:]
open(path.replace('.rs','_dbg.rs'),'w').write(s[:bo]+body+s[bc+1:])
