"""kanidrv -- Kani cross-checks (thorough tier): function text cut verbatim from /repo into kani/src/extracted.rs, then
`cargo kani`.  Loop-free harnesses over full-domain symbolic inputs are complete proofs on the code rustc compiles; harnesses with
#[kani::unwind] are BOUNDED and labelled so."""
import os
import re
import subprocess
import time

HERE = os.path.dirname(os.path.abspath(__file__))
VERIF = os.path.dirname(HERE)

HARNESSES = {
    'codepoint_len_all_bytes': dict(props=['C05', 'C06', 'C17', 'C13'], bound='none: function contract of codepoint_len proved for all 256 bytes, loop-free (complete)', bounded=False),
    'is_special_all_chars': dict(props=['C17'], bound='none: function contract of is_special proved for every char value, loop-free (complete)', bounded=False),
    'is_digit_all_bytes': dict(props=['C06', 'C12'], bound='none: function contract of is_digit proved for all 256 bytes (complete)', bounded=False),
    'digit_predicates_all_bytes': dict(props=['C06', 'C12'], bound='none: function contract of is_hex_digit proved for all 256 bytes with is_digit replaced by its verified contract (stub_verified), complete', bounded=False),
    'utf8_steps_len4': dict(props=['C05', 'C08', 'C13'], bound='BOUNDED: next_utf8 / prev_codepoint_ix on every valid UTF-8 string of <= 4 bytes and every boundary offset, unwind 6, codepoint_len replaced by its verified contract', bounded=True),
}


def run_for(prop, tier):
    mine = [h for h, d in HARNESSES.items() if prop in d['props']]
    if not mine or tier != 'thorough':
        return []
    env = dict(os.environ, CARGO_NET_OFFLINE='true')
    p = subprocess.run(['python3', os.path.join(HERE, 'kani_extract.py')], capture_output=True, text=True, env=env)
    res = []
    if p.returncode != 0:
        return [dict(harness=h, bound=HARNESSES[h]['bound'], status='undecided', reason='extraction failed: ' + (p.stdout + p.stderr)[-200:], obligation='kani.' + h) for h in mine]
    for h in mine:
        t0 = time.time()
        try:
            q = subprocess.run(['cargo', 'kani', '-Z', 'function-contracts', '-Z', 'stubbing', '--harness', h], cwd=os.path.join(VERIF, 'kani'), capture_output=True, text=True, env=env, timeout=1200)
            out = q.stdout + q.stderr
        except subprocess.TimeoutExpired:
            res.append(dict(harness=h, bound=HARNESSES[h]['bound'], status='undecided', reason='timeout', obligation='kani.' + h, wall_s=round(time.time() - t0, 1)))
            continue
        m = re.search(r'\*\* (\d+) of (\d+) failed', out)
        checks = int(m.group(2)) if m else 0
        if 'VERIFICATION:- SUCCESSFUL' in out:
            st = 'pass'
        elif 'VERIFICATION:- FAILED' in out:
            st = 'fail'
        else:
            st = 'undecided'
        failed = re.findall(r'Status: FAILURE\s*\n\s*- Description: "([^"]*)"', out)
        res.append(dict(harness=h, bound=HARNESSES[h]['bound'], status=st, checks=checks, wall_s=round(time.time() - t0, 1), obligation='kani.' + h,
                        reason=out[-300:] if st == 'undecided' else '', detail='; '.join(failed)[:400], bounded=HARNESSES[h]['bounded']))
    return res
