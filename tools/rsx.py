"""rsx -- a small brace/string/comment-aware scanner for Rust source text.

No Rust parser is available offline, so extraction works on a *masked* copy of the
source (comments and the contents of string/char literals blanked out, same length,
same line structure).  All positions found on the mask are used to cut the original
text, so what is extracted is byte-for-byte the text of /repo.
"""
import re


class ScanError(Exception):
    pass


def mask(text):
    """Return a string of the same length where comments and literal contents are spaces."""
    out = list(text)
    n = len(text)
    i = 0

    def blank(a, b):
        for k in range(a, b):
            if out[k] != '\n':
                out[k] = ' '

    while i < n:
        c = text[i]
        if c == '/' and i + 1 < n and text[i + 1] == '/':
            j = text.find('\n', i)
            if j < 0:
                j = n
            blank(i, j)
            i = j
        elif c == '/' and i + 1 < n and text[i + 1] == '*':
            depth = 1
            j = i + 2
            while j < n and depth > 0:
                if text.startswith('/*', j):
                    depth += 1
                    j += 2
                elif text.startswith('*/', j):
                    depth -= 1
                    j += 2
                else:
                    j += 1
            blank(i, j)
            i = j
        elif c == '"' or (c in 'rb' and re.match(r'(br|rb|r|b)#*"', text[i:i + 12]) and not (i > 0 and (text[i - 1].isalnum() or text[i - 1] == '_'))):
            m = re.match(r'(br|rb|r|b)?(#*)"', text[i:i + 12])
            prefix, hashes = m.group(1) or '', m.group(2)
            start = i + len(m.group(0))
            if 'r' in prefix:
                endtok = '"' + hashes
                j = text.find(endtok, start)
                if j < 0:
                    raise ScanError('unterminated raw string')
                blank(start, j)
                i = j + len(endtok)
            else:
                j = start
                while j < n and text[j] != '"':
                    j += 2 if text[j] == '\\' else 1
                blank(start, j)
                i = j + 1
        elif c == "'" or (c == 'b' and i + 1 < n and text[i + 1] == "'" and not (i > 0 and (text[i - 1].isalnum() or text[i - 1] == '_'))):
            q = i if c == "'" else i + 1
            # char literal or lifetime?
            if q + 1 < n and text[q + 1] == '\\':
                j = q + 2
                # skip escape
                j = text.find("'", j + 0)
                # '\'' special case
                if text[q + 2] == "'":
                    j = q + 3
                blank(q + 1, j)
                i = j + 1
            elif q + 2 < n and text[q + 2] == "'":
                blank(q + 1, q + 2)
                i = q + 3
            else:
                i = q + 1  # lifetime / label
        else:
            i += 1
    return ''.join(out)


OPEN = '([{'
CLOSE = ')]}'


def match_close(m, i):
    """m[i] is an opening bracket; return index of its closing partner (on the mask)."""
    depth = 0
    n = len(m)
    j = i
    while j < n:
        ch = m[j]
        if ch in OPEN:
            depth += 1
        elif ch in CLOSE:
            depth -= 1
            if depth == 0:
                return j
        j += 1
    raise ScanError('unbalanced bracket at %d' % i)


def skip_ws(m, i):
    while i < len(m) and m[i].isspace():
        i += 1
    return i


def match_angle(m, i):
    """m[i]=='<' of a generics list; return index after matching '>'. Handles '->' and nested."""
    depth = 0
    j = i
    while j < len(m):
        ch = m[j]
        if ch == '<':
            depth += 1
        elif ch == '>' and m[j - 1] != '-' and m[j - 1] != '=':
            depth -= 1
            if depth == 0:
                return j + 1
        elif ch in '({[':
            j = match_close(m, j)
        j += 1
    raise ScanError('unbalanced <')


WORD = re.compile(r'[A-Za-z_][A-Za-z0-9_]*')


class Source:
    def __init__(self, path, text=None):
        self.path = path
        self.text = text if text is not None else open(path, encoding='utf-8').read()
        self.mask = mask(self.text)
        # line starts
        self.line_starts = [0]
        for i, ch in enumerate(self.text):
            if ch == '\n':
                self.line_starts.append(i + 1)

    def line_of(self, pos):
        import bisect
        return bisect.bisect_right(self.line_starts, pos)

    # ---- item discovery -------------------------------------------------
    def top_blocks(self, lo=0, hi=None):
        """Yield (kind, header_start, brace_open, brace_close) for brace items at depth 0 in [lo,hi)."""
        m = self.mask
        hi = len(m) if hi is None else hi
        i = lo
        stmt_start = lo
        while i < hi:
            ch = m[i]
            if ch == ';':
                stmt_start = i + 1
            elif ch in '([':
                i = match_close(m, i)
            elif ch == '{':
                j = match_close(m, i)
                yield (stmt_start, i, j)
                stmt_start = j + 1
                i = j
            i += 1

    def _header(self, a, b):
        return ' '.join(self.mask[a:b].split())

    def impls(self):
        """All impl blocks (outside `mod tests`): list of (self_type, header, open, close)."""
        res = []
        for (hs, bo, bc) in self.top_blocks():
            hdr = self._header(hs, bo)
            hdr_noattr = strip_attrs(hdr)
            if re.match(r'(pub(\([^)]*\))? )?(unsafe )?impl\b', hdr_noattr):
                h = hdr_noattr
                # self type: after ' for ' if present else after impl<..>
                mm = re.search(r'\bfor\s+([A-Za-z_][A-Za-z0-9_:]*)', h)
                if mm:
                    ty = mm.group(1)
                else:
                    h2 = re.sub(r'^(pub(\([^)]*\))? )?(unsafe )?impl\s*', '', h)
                    if h2.startswith('<'):
                        h2 = h2[match_angle(h2, 0):].strip()
                    ty = WORD.match(h2).group(0) if WORD.match(h2) else ''
                ty = ty.split('::')[-1]
                res.append((ty, h, bo, bc))
        return res

    def find_fn(self, path):
        """path: 'name' (free fn) or 'Type::name'. Returns FnItem."""
        if '::' in path:
            ty, name = path.split('::')
            cands = []
            for (t, h, bo, bc) in self.impls():
                if t == ty:
                    f = self._find_fn_in(name, bo + 1, bc)
                    if f:
                        f.impl_header = h
                        cands.append(f)
            if len(cands) != 1:
                raise ScanError('fn %s: %d candidates in %s' % (path, len(cands), self.path))
            return cands[0]
        f = self._find_fn_in(path, 0, len(self.mask))
        if not f:
            raise ScanError('fn %s not found in %s' % (path, self.path))
        return f

    def _find_fn_in(self, name, lo, hi):
        m = self.mask
        for (hs, bo, bc) in self.top_blocks(lo, hi):
            hdr = m[hs:bo]
            mm = re.search(r'\bfn\s+' + re.escape(name) + r'\b', hdr)
            if mm and not re.search(r'\b(mod|impl|trait)\b', strip_attrs(' '.join(hdr.split()))):
                fn_kw = hs + mm.start()
                return FnItem(self, name, hs, fn_kw, bo, bc)
        return None

    def find_item(self, kind, name):
        """kind in struct/enum; returns (start_of_keyword, open, close, attrs_text)."""
        m = self.mask
        for (hs, bo, bc) in self.top_blocks():
            hdr = m[hs:bo]
            mm = re.search(r'\b' + kind + r'\s+' + re.escape(name) + r'\b', hdr)
            if mm:
                return (hs, hs + mm.start(), bo, bc)
        if kind == 'struct':
            # tuple struct: `struct Name<..>(..);`
            mm = re.search(r'\bstruct\s+' + re.escape(name) + r'\b[^;{(]*\(', m)
            if mm:
                po = mm.end() - 1
                pc = match_close(m, po)
                semi = m.find(';', pc)
                return (mm.start(), mm.start(), po, semi)
        raise ScanError('%s %s not found in %s' % (kind, name, self.path))

    def find_const(self, name):
        mm = re.search(r'^[ \t]*(pub(\([^)]*\))?\s+)?const\s+' + re.escape(name) + r'\s*:[^;]*;', self.mask, re.M)
        if not mm:
            raise ScanError('const %s not found in %s' % (name, self.path))
        return (mm.start(), mm.end())


def strip_attrs(h):
    # remove #[...] attributes from a whitespace-normalised header
    out = h
    while True:
        i = out.find('#[')
        if i < 0:
            break
        j = match_close(out, i + 1)
        out = (out[:i] + out[j + 1:]).strip()
    return out


class FnItem:
    def __init__(self, src, name, hdr_start, fn_kw, body_open, body_close):
        self.src = src
        self.name = name
        self.hdr_start = hdr_start
        self.fn_kw = fn_kw
        self.body_open = body_open
        self.body_close = body_close
        self.impl_header = None

    @property
    def signature(self):
        """text from `fn` up to (not including) the body brace"""
        return self.src.text[self.fn_kw:self.body_open]

    @property
    def body(self):
        return self.src.text[self.body_open:self.body_close + 1]

    @property
    def first_line(self):
        return self.src.line_of(self.fn_kw)


# ---------------- structure inside a body --------------------------------

LOOP_KW = re.compile(r"(?<![A-Za-z0-9_])(for|while|loop)(?![A-Za-z0-9_])")


class Body:
    """text: the fn body including outer braces (already rewritten); offsets are into text."""

    def __init__(self, text):
        self.text = text
        self.mask = mask(text)
        self.loops = self._loops()
        self.ifs = self._ifs()
        self.continues = [m.start() for m in re.finditer(r'(?<![A-Za-z0-9_])continue(?![A-Za-z0-9_])', self.mask)]
        self.returns = [m.start() for m in re.finditer(r'(?<![A-Za-z0-9_])return(?![A-Za-z0-9_])', self.mask)]

    def _loops(self):
        m = self.mask
        res = []
        for mm in LOOP_KW.finditer(m):
            kw = mm.group(1)
            i = mm.end()
            if kw == 'for':
                # must look like `for PAT in EXPR {`; PAT may itself contain braces (struct patterns)
                j = i
                found_in = None
                while j < len(m) and j < i + 400:
                    ch = m[j]
                    if ch in '([{':
                        j = match_close(m, j)
                    elif ch in ';}':
                        break
                    elif m.startswith('in', j) and m[j - 1].isspace() and j + 2 < len(m) and m[j + 2].isspace():
                        found_in = j + 2
                        break
                    j += 1
                if found_in is None:
                    continue
                i = found_in
            # body brace = first '{' at bracket depth 0
            j = i
            brace = None
            while j < len(m):
                ch = m[j]
                if ch in '([':
                    j = match_close(m, j)
                elif ch == '{':
                    brace = j
                    break
                elif ch in ';}':
                    break
                j += 1
            if brace is None:
                continue
            close = match_close(m, brace)
            # label?
            start = mm.start()
            lab = re.search(r"'([A-Za-z_][A-Za-z0-9_]*)\s*:\s*$", m[:start])
            if lab:
                start = lab.start()
            res.append(dict(kw=kw, start=start, kw_pos=mm.start(), hdr_end=mm.end(), open=brace, close=close))
        return res

    def _ifs(self):
        """All `if` expressions in source order: dict(start, then_open, then_close, else_open, else_close, end)."""
        m = self.mask
        res = []
        for mm in re.finditer(r'(?<![A-Za-z0-9_])if(?![A-Za-z0-9_])', m):
            j = mm.end()
            brace = None
            while j < len(m):
                ch = m[j]
                if ch in '([':
                    j = match_close(m, j)
                elif ch == '{':
                    if m[mm.end():j].strip() == '':
                        # `if { block } { then }`: a block expression as the condition (produced by rewrite R14)
                        j = match_close(m, j)
                    else:
                        brace = j
                        break
                elif ch in ';}':
                    break
                j += 1
            if brace is None:
                continue   # e.g. a match guard `pat if cond =>`
            # a match-arm guard has '=>' before any '{' ... detect: text between contains '=>'
            if '=>' in m[mm.end():brace]:
                continue
            tc = match_close(m, brace)
            d = dict(start=mm.start(), then_open=brace, then_close=tc, else_open=None, else_close=None, end=tc + 1)
            k = skip_ws(m, tc + 1)
            if m.startswith('else', k) and not (m[k + 4].isalnum() or m[k + 4] == '_'):
                k2 = skip_ws(m, k + 4)
                if m[k2] == '{':
                    d['else_open'] = k2
                    d['else_close'] = match_close(m, k2)
                    d['end'] = d['else_close'] + 1
                else:
                    d['end'] = None  # else-if chain: end is the end of the chain (resolved lazily)
            res.append(d)
        # resolve chain ends
        for idx in range(len(res) - 1, -1, -1):
            d = res[idx]
            if d['end'] is None:
                # the nested `if` is the next one starting after then_close
                nxt = [x for x in res if x['start'] > d['then_close']]
                d['end'] = nxt[0]['end'] if nxt else d['then_close'] + 1
        return res

    def match_blocks(self):
        """All `match EXPR {` blocks: list of dict(header, open, close)."""
        m = self.mask
        res = []
        for mm in re.finditer(r'(?<![A-Za-z0-9_])match(?![A-Za-z0-9_])', m):
            j = mm.end()
            brace = None
            while j < len(m):
                ch = m[j]
                if ch in '([':
                    j = match_close(m, j)
                elif ch == '{':
                    brace = j
                    break
                elif ch in ';}':
                    break
                j += 1
            if brace is None:
                continue
            res.append(dict(header=' '.join(self.text[mm.end():brace].split()), open=brace, close=match_close(m, brace)))
        return res

    def arms(self, blk):
        """Arms of a match block: list of dict(pat, pat_start, arrow, body_start, body_end, block(bool), end)."""
        m = self.mask
        i = blk['open'] + 1
        end = blk['close']
        res = []
        while True:
            i = skip_ws(m, i)
            if i >= end:
                break
            pat_start = i
            # find '=>' at depth 0
            j = i
            while j < end:
                ch = m[j]
                if ch in '([{':
                    j = match_close(m, j)
                elif ch == '=' and m[j + 1] == '>':
                    break
                j += 1
            if j >= end:
                break
            arrow = j
            b = skip_ws(m, arrow + 2)
            if m[b] == '{':
                bc = match_close(m, b)
                k = skip_ws(m, bc + 1)
                arm_end = k + 1 if k < end and m[k] == ',' else bc + 1
                res.append(dict(pat=' '.join(self.text[pat_start:arrow].split()), pat_start=pat_start, arrow=arrow,
                                body_start=b, body_end=bc, block=True, end=arm_end))
                i = arm_end
            else:
                k = b
                while k < end:
                    ch = m[k]
                    if ch in '([{':
                        k = match_close(m, k)
                    elif ch == ',':
                        break
                    k += 1
                res.append(dict(pat=' '.join(self.text[pat_start:arrow].split()), pat_start=pat_start, arrow=arrow,
                                body_start=b, body_end=k, block=False, end=min(k + 1, end)))
                i = k + 1
        return res

    def stmts(self):
        """Top-level statements of the outer block: list of (start, end) offsets (end exclusive, after `;` or closing `}`)."""
        m = self.mask
        i = 1
        end = len(m) - 1
        res = []
        start = None
        while i < end:
            ch = m[i]
            if start is None:
                if ch.isspace():
                    i += 1
                    continue
                start = i
            if ch in '([':
                i = match_close(m, i)
            elif ch == '{':
                i = match_close(m, i)
                k = skip_ws(m, i + 1)
                # a block-like statement ends at its closing brace unless an operator / else / method call continues it
                first = m[start:start + 8]
                blocklike = re.match(r"(if|for|while|loop|match|unsafe|\{|'[A-Za-z_]\w*\s*:)", m[start:start + 40])
                if blocklike and not (m.startswith('else', k) or (k < end and m[k] in '.?;')):
                    res.append((start, i + 1))
                    start = None
            elif ch == ';':
                res.append((start, i + 1))
                start = None
            i += 1
        return res

    def tail_start(self):
        """Offset where the tail expression of the outer block starts (or None if no tail)."""
        m = self.mask
        i = 1
        end = len(m) - 1
        last = 1
        while i < end:
            ch = m[i]
            if ch in '([':
                i = match_close(m, i)
            elif ch == '{':
                i = match_close(m, i)
                # a block statement ends here unless followed by else / . / ?
                k = skip_ws(m, i + 1)
                if not (m.startswith('else', k) or m[k] in '.?'):
                    last = i + 1
            elif ch == ';':
                last = i + 1
            i += 1
        t = skip_ws(m, last)
        if t >= end:
            return None
        return t
