#!/bin/bash
# builds and verifies every unit once (no twins, no families): a quick sanity pass before committing contract changes
cd "$(dirname "$0")/.."
rc=0
for t in contracts/*.vrs; do
  u=$(basename $t .vrs)
  grep -q "^//@ unit " $t || continue
  out=$(python3 tools/build_unit.py -o .build/$u.rs $t 2>&1 | tail -1)
  res=$(verus .build/$u.rs --rlimit 100 2>&1 | grep -E "verification results|^error" | head -2 | tr '\n' ' ')
  echo "$u: $res"
  echo "$res" | grep -q " 0 errors" || rc=1
done
exit $rc
