"""Per-property metadata used in evidence files (level, what is proved, residual, standing assumptions)."""

T_VSTD = "T-vstd: vstd's specifications of Vec, Option, Result, BTreeSet, str/UTF-8, ranges, for-loops"
T_ARITH = "machine arithmetic is NOT treated as mathematical: Verus checks every + - * for overflow"
T_EXTRACT = ("extraction: function bodies are cut from /repo/src on every run by a brace/string/comment-aware scanner "
             "(tools/rsx.py); rewrites R1-R16 (coverage.rewrite_rules, hit counts in coverage.units[].rewrite_hits) are assumed semantics-preserving")

PROPS = {
    'C20': dict(
        level='proof',
        explanation=("Every State operation of vm.rs (new, push, pop, save, get, stack_push, stack_pop, backtrack_count, backtrack_cut) "
                     "is verified by Verus, for all stack depths / slot counts / histories, against an abstract view "
                     "(slots, explicit stack, sequence of pending frames each holding the WHOLE state at creation): pop restores exactly the newest frame; "
                     "save/stack_push/stack_pop change only the current values and no frame; backtrack_cut keeps current values and frames.take(count)."),
        residual="The atomic / look-around arms of run are proved to use these operations as the spec machine says (U-RUN refinement), under flow assumptions A1 / A2 (listed in U-RUN).",
        assumptions=[T_VSTD, T_ARITH, T_EXTRACT, "T-swap: <[T]>::swap swaps two in-bounds elements", "T-veclen: a Vec's length is <= usize::MAX (<= isize::MAX for Vec<usize>)"],
        bounded_families=['state_ops', 'refsem'],
    ),
    'C08': dict(
        bounded_families=['iter', 'refsem'],
        kani=True,
        level='proof',
        explanation=("Matches::next (find_iter) is verified by Verus to be exactly one step of the reference iteration model transcribed from the property "
                     "(search from the previous end with the skipped-empty flag, step one character after an empty match, drop an empty match adjacent to the previous match, "
                     "after an Err nothing more) for EVERY behaviour of an uninterpreted search function that satisfies the search contract pos <= start <= end <= len on char boundaries; "
                     "termination of the self-recursion is proved (decreases); lemma_it_monotone proves on the model that yielded spans never start before the previous end and are strictly increasing; "
                     "find_iter starts in the model's initial state."),
        residual="That the VM engine satisfies the search contract is U-RUN's postcondition (assumed here, T-find); regex-automata's search is assumed to satisfy it; the reference 'leftmost match' itself is C01.",
        assumptions=[T_VSTD, T_ARITH, T_EXTRACT, "T-find: find_from_pos_with_option_flags returns find_spec(re,text,pos,flags) and a found span satisfies pos <= start <= end <= len on char boundaries",
                     "T-strlen: a str is at most isize::MAX bytes", "next_utf8's contract (proved in U-UTF8)"],
    ),
    'C09': dict(
        bounded_families=['iter', 'search', 'refsem'],
        level='proof',
        explanation=("CaptureMatches::next is verified to perform the SAME reference-model step as Matches::next on the span of group 0 (so captures_iter yields exactly the spans find_iter yields, "
                     "in the same order, including the skipped-empty-match flag and the Err history); Match::new builds the span it is given; captures_iter starts in the initial state."),
        residual="is_match / find / captures coherence for one call is decided in U-FIND (same vm::run call, determinism); the Wrap arm relies on regex-automata's three entry points being coherent (assumed).",
        assumptions=[T_VSTD, T_ARITH, T_EXTRACT, "T-find / T-captures: captures_from_pos_with_option_flags is the same search as find_from_pos_with_option_flags and Captures::get(0) is its span"],
    ),
    'C10': dict(
        bounded_families=['iter', 'refsem'],
        level='proof',
        explanation=("Split::next and SplitN::next are verified equal to one step of the reference split/splitn model over the find_iter model (piece = text between previous match end and next match start, "
                     "remainder exactly once, n = 0 yields nothing, the n-th item is the untouched remainder), with every slice proved in bounds and on character boundaries; split/splitn start in the initial state."),
        residual="Same search contract as C08 (T-find).",
        assumptions=[T_VSTD, T_ARITH, T_EXTRACT, "T-find", "T-strslice: &s[a..b] on str yields the byte sub-range (vstd gives only its precondition)"],
    ),
    'C16': dict(
        bounded_families=['search', 'refsem'],
        level='proof',
        explanation=("Verified by Verus for the VM engine: Captures::get maps slot pairs to Option<Match> exactly as documented (None past the end, None for an unset start slot, no overflow for any index), "
                     "Captures::len is the number of slot pairs, Captures::iter / SubCaptureMatches::next yields get(0..len) in order, captures_from_pos truncates to exactly captures_len groups, "
                     "get(0) is Some for every successful search, Regex::captures_len returns the stored group count."),
        residual=("captures_len == 1 + number of capturing groups of the parsed tree is the postcondition of Regex::new_options (U-NEW) for both engines; capture_names / name() go through the parser's "
                  "name map (outside reach; exercised by the bounded `search` family only); the delegated engine's group accounting is regex-automata's (assumed, T-RA)."),
        assumptions=[T_VSTD, T_ARITH, T_EXTRACT, "T-run: vm::run returns at least prog.n_saves slots with a valid group-0 span (U-RUN postcondition)", "Regex::wf: n_groups >= 1 and 2*n_groups <= prog.n_saves -- assumed in U-CAPS, proved as the postcondition of Regex::new_options in U-NEW (same text)",
                     "T-RA: regex-automata Captures accessors (ARMSUB shims)"],
    ),
    'C13': dict(
        bounded_families=['analyze', 'refsem'],
        kani=True,
        level='proof',
        explanation=("Analyzer::visit is verified by Verus, for EVERY expression tree (structural induction carried by the real recursive function), against the spec match-length relation len_of: "
                     "at every node of the Info tree no n with len_of(e, n) is below the computed min_size, and when const_size is set every n <= usize::MAX with len_of(e, n) equals min_size "
                     "(the second sentence of the property, literally); the Info tree mirrors the expression tree; no arithmetic overflows. "
                     "prev_codepoint_ix (what GoBack uses) is verified to step back exactly one code point and never below a boundary."),
        residual=("compile_lookaround(_inner) (LookBehindNotConst iff not const; per-alternative split; GoBack(min_size)) and the GoBack arm of vm::run are decided in U-COMPILE / U-RUN; "
                  "Expr::Delegate{size} accuracy and 1:1 simple case folding are trusted; parser shape facts (expr_wf) are assumed."),
        assumptions=[T_VSTD, T_ARITH, T_EXTRACT, "T-parser-shape: trees reaching analyze satisfy expr_wf (every Alt non-empty, every Literal node one character) and have at most usize::MAX groups",
                     "T-delegate-size / T-casefold: a Delegate node matches exactly `size` characters; case-insensitive literals match the same number of characters",
                     "T-bitset: bit_set::BitSet::contains is a pure membership test"],
    ),
    'C17': dict(
        kani=True,
        level='proof',
        explanation=("Verified by Verus: is_special is exactly the 15-character meta set; push_quoted appends quote(s) (each meta-character preceded by one backslash, everything else verbatim) for every string; "
                     "lemma_unquote_quote: reading a quoted string back yields the original; lemma_quote_id: a string without meta-characters is its own quoting; "
                     "the byte-level helpers used when the escaped string is matched by the VM (codepoint_len, prev_codepoint_ix, matches_literal) are verified in U-UTF8."),
        residual=("`escape` itself is verified too (U-QUOTE, rewrite R15): it borrows iff no character needs quoting, otherwise returns exactly quote(text). "
                  "'Regex::new(escape(s)) finds the first literal occurrence, also embedded in fancy hosts' is decided only by the BOUNDED "
                  "family `quote` (all strings of length <= 3 over a 28-character alphabet incl. every meta-character and 2-4 byte characters, 5 host patterns, 7 texts) -- listed under coverage.bounded, never counted as proved."),
        assumptions=[T_VSTD, T_ARITH, T_EXTRACT, "vstd's model of String::push / str::chars", "T-scalar: scalars decoded from a str are <= 0x10FFFF", "T-capacity: String::with_capacity returns an empty string"],
        bounded_families=['quote'],
    ),
    'C06': dict(
        kani=True,
        level='proof',
        explanation=("Verified by Verus for every expression tree / every input: the analysis (Analyzer::visit, analyze) has no arithmetic overflow (Verus checks every + - *; the group counter is bounded by the tree's group count) and terminates; "
                     "whatever the analysis does not label hard is in the syntactic class `easy` (lemma_easy) and Expr::to_str on an easy tree never reaches its panic!, terminates, and push_usize never overflows its u8 digit arithmetic; "
                     "codepoint_len (the parser's stepping function) returns the encoded width of every leading byte."),
        residual=("Of the parser, the byte-level helpers (is_digit, is_hex_digit, parse_decimal, optional_whitespace, check_for_close_paren, parse_repeat, flag, update_flag, is_repeatable) and the recursive descent itself "
                  "(Expr::parse_tree, Parser::{new, parse, parse_re, parse_branch, parse_piece, parse_atom, parse_group, parse_flags, parse_conditional}) are under contract: no panic (indexing, slicing on character boundaries, "
                  "curr_group += 1 cannot overflow), positions inside the pattern and never moving backwards, error positions <= length, the recursion terminates (decreases MAX_RECURSION - depth, rank) and so does every loop, the tree is well-shaped. "
                  "Also under contract: parse_escape (the whole escape table: a trailing backslash is an error, slices on boundaries, the \\p{..} scan terminates inside the pattern; outside a class \\A \\z \\b \\B \\< \\> \\K \\G give the documented node whatever the flags), "
                  "parse_hex (at most 8 digits reach the unwrap of the hex value), parse_class (no index past the pattern, the nesting counter neither overflows nor underflows, the scan terminates), parse_numbered_backref (the bit-set guard), make_literal. "
                  "parse_named_backref, parse_id and regex-automata's builder are NOT decided by proof: outside Verus' dialect, assumed with the common sub-parser contract (T-parse-below), "
                  "exercised only by the bounded family parse. The code emitter (U-COMPILE / U-EMITWF: no overflow / bounds / panic, push_literal only on literals, build never on an empty builder) and the construction glue "
                  "(U-NEW: Regex::new_options composes parse -> wrap -> analyze -> compile / wrap, lemma_info_ok_cinfo, lemma_info_ok_gt) are decided by proof."),
        assumptions=[T_VSTD, T_ARITH, T_EXTRACT, "T-parse-below: parse_named_backref / parse_id (and the name table) return positions in bounds on boundaries, well-shaped trees, error positions inside the pattern, the group counter behind the position; T-parser-shape: < 2^61 groups", "T-position / T-startswith / T-fromstr (usize and u32 from_str_radix, char::from_u32) / T-stringfrom / T-bitset (insert) / T-ascii (is_ascii_alphabetic) / escape_into / format! shims in U-PARSEFN; the closures handed to parse_numbered_backref are passed by value instead of by reference (listed bodysubs)",
                     "termination of the recursive code emitter is proved in U-EMITWF (decreases *info, rank; through the closures too); U-COMPILE verifies the same functions under its shape contract with exec_allows_no_decreases_clause"],
        bounded_families=['analyze', 'parse'],
    ),
    'C05': dict(
        kani=True,
        level='proof',
        bounded_families=['search', 'iter', 'refsem', 'progwf'],
        explanation=("vm::run is verified by Verus for every well-formed program, every text and every start offset on a char boundary: every index, slice (&s[lo..hi] in Backref included), "
                     "unwrap, subtraction and addition in all 21 instruction arms is in bounds / on a character boundary / overflow-free; the reported overall span satisfies start <= end <= len with both ends on boundaries; "
                     "the only errors are StackOverflow and BacktrackLimitExceeded. The UTF-8 stepping helpers, Match::as_str, Captures::get (no index overflow), Split::next / SplitN::next slicing are verified in their units."),
        residual=("Flow assumptions A1-A5 inside run (listed); start <= end for groups >= 1 is not proved (only that each slot is unset or a boundary <= len); "
                  "try_replacen is covered only by the bounded `search` family; the parser/compiler side is C06."),
        assumptions=[T_VSTD, T_ARITH, T_EXTRACT, "A1 (assume in run, EndAtomic): the explicit stack is non-empty and its top is <= the number of pending alternatives",
                     "A2 (assume in run, FailNegativeLookAround): an alternative resuming at pc+1 is pending",
                     "A3 (assume / precondition): iteration counters and the backtrack counter stay below 2^64 - 1 (backtrack_limit < usize::MAX)",
                     "A4 (assume in run, End): slots 0 and 1 have been set when End is reached",
                     "A5 (assume in run, Restore): the restored slot has been set",
                     "prog_wf(prog): static well-formedness of the program (jump targets, slot indices, counter / position slot typing) is a PRECONDITION of run and the POSTCONDITION of compile proved in U-EMITWF (one text, progwf_spec.vrs); it travels through Regex::wf, which U-NEW establishes and U-CAPS requires (Prog is opaque in those two units: link by identical contract text); what stays assumed of it: fewer than 2^63 save slots (A6) and fewer than 2^61 groups (T-parser-shape); bounded cross-check: replay family progwf evaluates prog_wf on real compiled programs",
                     "T-RA-search / T-RA-look: regex-automata's anchored search returns offsets in [ix, len] on char boundaries with paired slots; LookMatcher is total and the unicode word-boundary variants return Ok",
                     "the inner interpreter loop is verified with exec_allows_no_decreases_clause: termination of a non-failing instruction cycle is NOT proved"],
    ),
    'C07': dict(
        level='proof',
        explanation=("Proved: vm::run refines the spec machine, in which every backtrack increments bt and a search stops with BacktrackLimitExceeded exactly when bt + 1 > limit at a failure with pending alternatives, "
                     "and with StackOverflow exactly when an alternative would be the (MAX_STACK+1)-th; lemma_limit_monotone (on the spec machine): a run with limit L either ends in LimitExceeded or equals the unlimited run, "
                     "and equals it whenever the unlimited run needs at most L backtracks; the analysis' min_size is a sound lower bound (U-ANALYZE), so a body that can match empty has min_size 0."),
        residual=("Termination of a non-failing instruction cycle inside one branch and 'tiny explorations never hit the limits' need compiler correctness (compile_repeat's choice of the epsilon-guarded loop is U-COMPILE); "
                  "the outer loop's step bound follows from the refinement only together with that."),
        assumptions=[T_VSTD, T_ARITH, T_EXTRACT, "A1 (assume in run, EndAtomic): the explicit stack is non-empty and its top is <= the number of pending alternatives",
                     "A2 (assume in run, FailNegativeLookAround): an alternative resuming at pc+1 is pending",
                     "A3 (assume / precondition): iteration counters and the backtrack counter stay below 2^64 - 1 (backtrack_limit < usize::MAX)",
                     "A4 (assume in run, End): slots 0 and 1 have been set when End is reached",
                     "A5 (assume in run, Restore): the restored slot has been set",
                     "prog_wf(prog): static well-formedness of the program (jump targets, slot indices, counter / position slot typing) is a PRECONDITION of run and the POSTCONDITION of compile proved in U-EMITWF (one text, progwf_spec.vrs); it travels through Regex::wf, which U-NEW establishes and U-CAPS requires (Prog is opaque in those two units: link by identical contract text); what stays assumed of it: fewer than 2^63 save slots (A6) and fewer than 2^61 groups (T-parser-shape); bounded cross-check: replay family progwf evaluates prog_wf on real compiled programs",
                     "T-RA-search / T-RA-look: regex-automata's anchored search returns offsets in [ix, len] on char boundaries with paired slots; LookMatcher is total and the unicode word-boundary variants return Ok",
                     "the inner interpreter loop is verified with exec_allows_no_decreases_clause: termination of a non-failing instruction cycle is NOT proved"],
        bounded_families=['progwf'],
    ),
    'C01': dict(
        level='proof',
        explanation=("Component obligations only: (i) vm::run computes exactly what the spec machine (the documented instruction semantics) computes, arm by arm -- Split priority, greedy / lazy repeat order, "
                     "epsilon guard, Backref comparison, GoBack in characters, atomic cut, delegate anchoring at ix, the \\K / End caps; (ii) the State discipline (U-STATE); (iii) soundness of min_size / const_size / hard (U-ANALYZE); "
                     "(iv) the UTF-8 helpers."),
        residual=("NOT covered: that the compiled program implements the reference semantics of the AST (compile_concat's delegation placement, compile_* lowering) and that regex-automata agrees with the reference on delegated pieces. "
                  "This is a verified-compiler statement, out of reach of per-function contracts (DESIGN.md 6)."),
        assumptions=[T_VSTD, T_ARITH, T_EXTRACT, "A1 (assume in run, EndAtomic): the explicit stack is non-empty and its top is <= the number of pending alternatives",
                     "A2 (assume in run, FailNegativeLookAround): an alternative resuming at pc+1 is pending",
                     "A3 (assume / precondition): iteration counters and the backtrack counter stay below 2^64 - 1 (backtrack_limit < usize::MAX)",
                     "A4 (assume in run, End): slots 0 and 1 have been set when End is reached",
                     "A5 (assume in run, Restore): the restored slot has been set",
                     "prog_wf(prog): static well-formedness of the program (jump targets, slot indices, counter / position slot typing) is a PRECONDITION of run and the POSTCONDITION of compile proved in U-EMITWF (one text, progwf_spec.vrs); it travels through Regex::wf, which U-NEW establishes and U-CAPS requires (Prog is opaque in those two units: link by identical contract text); what stays assumed of it: fewer than 2^63 save slots (A6) and fewer than 2^61 groups (T-parser-shape); bounded cross-check: replay family progwf evaluates prog_wf on real compiled programs",
                     "T-RA-search / T-RA-look: regex-automata's anchored search returns offsets in [ix, len] on char boundaries with paired slots; LookMatcher is total and the unicode word-boundary variants return Ok",
                     "the inner interpreter loop is verified with exec_allows_no_decreases_clause: termination of a non-failing instruction cycle is NOT proved"],
        bounded_families=['refsem', 'progwf'],
    ),
    'C02': dict(
        level='proof',
        explanation=("Component obligations: slot writes in run are exactly those of the spec machine (Save, Save0, Delegate's inner->outer group copy with None -> unset for BOTH slots of a group, restore on backtrack, "
                     "values kept on atomic cut); Captures::get maps slot pairs to Option<Match> and truncation keeps exactly the capture slots (U-CAPS)."),
        residual="Same as C01: that the winning VM path is the reference path is not covered.",
        assumptions=[T_VSTD, T_ARITH, T_EXTRACT, "A1 (assume in run, EndAtomic): the explicit stack is non-empty and its top is <= the number of pending alternatives",
                     "A2 (assume in run, FailNegativeLookAround): an alternative resuming at pc+1 is pending",
                     "A3 (assume / precondition): iteration counters and the backtrack counter stay below 2^64 - 1 (backtrack_limit < usize::MAX)",
                     "A4 (assume in run, End): slots 0 and 1 have been set when End is reached",
                     "A5 (assume in run, Restore): the restored slot has been set",
                     "prog_wf(prog): static well-formedness of the program (jump targets, slot indices, counter / position slot typing) is a PRECONDITION of run and the POSTCONDITION of compile proved in U-EMITWF (one text, progwf_spec.vrs); it travels through Regex::wf, which U-NEW establishes and U-CAPS requires (Prog is opaque in those two units: link by identical contract text); what stays assumed of it: fewer than 2^63 save slots (A6) and fewer than 2^61 groups (T-parser-shape); bounded cross-check: replay family progwf evaluates prog_wf on real compiled programs",
                     "T-RA-search / T-RA-look: regex-automata's anchored search returns offsets in [ix, len] on char boundaries with paired slots; LookMatcher is total and the unicode word-boundary variants return Ok",
                     "the inner interpreter loop is verified with exec_allows_no_decreases_clause: termination of a non-failing instruction cycle is NOT proved"],
        bounded_families=['refsem'],
    ),
    'C15': dict(
        level='proof',
        explanation=("Component obligations: the BackrefExistsCondition arm of run fails iff the group's start slot is unset; BeginAtomic / EndAtomic push the current depth and cut to it (refinement + U-STATE), "
                     "so a condition that matched discards exactly the alternatives created since BeginAtomic."),
        residual=("compile_conditional's emitted shape and parse_conditional are not under contract yet (U-COMPILE); known finding KF2: a failed condition leaves its BeginAtomic entry on the explicit stack "
                  "(see known-findings.txt), so A1 is violated for nested conditionals / conditionals inside atomic groups."),
        assumptions=[T_VSTD, T_ARITH, T_EXTRACT, "A1 (assume in run, EndAtomic): the explicit stack is non-empty and its top is <= the number of pending alternatives",
                     "A2 (assume in run, FailNegativeLookAround): an alternative resuming at pc+1 is pending",
                     "A3 (assume / precondition): iteration counters and the backtrack counter stay below 2^64 - 1 (backtrack_limit < usize::MAX)",
                     "A4 (assume in run, End): slots 0 and 1 have been set when End is reached",
                     "A5 (assume in run, Restore): the restored slot has been set",
                     "prog_wf(prog): static well-formedness of the program (jump targets, slot indices, counter / position slot typing) is a PRECONDITION of run and the POSTCONDITION of compile proved in U-EMITWF (one text, progwf_spec.vrs); it travels through Regex::wf, which U-NEW establishes and U-CAPS requires (Prog is opaque in those two units: link by identical contract text); what stays assumed of it: fewer than 2^63 save slots (A6) and fewer than 2^61 groups (T-parser-shape); bounded cross-check: replay family progwf evaluates prog_wf on real compiled programs",
                     "T-RA-search / T-RA-look: regex-automata's anchored search returns offsets in [ix, len] on char boundaries with paired slots; LookMatcher is total and the unicode word-boundary variants return Ok",
                     "the inner interpreter loop is verified with exec_allows_no_decreases_clause: termination of a non-failing instruction cycle is NOT proved"],
        bounded_families=['refsem'],
    ),
    'C11': dict(
        level='other',
        bounded_families=['replace', 'expand'],
        explanation=("BOUNDED ONLY. try_replacen and the Replacer impls use iterator adapters (enumerate().peekable()), Cow and trait objects that are outside Verus' dialect, and Kani needs the whole regex engine for them; "
                     "no contract within reach can carry 'replaces exactly the first n matches'. The property is checked by the bounded family `replace` on the real crate: for every (pattern, text, backtrack limit, n, replacer) "
                     "of its corpus the result equals the text rebuilt from the real captures_iter sequence with the first n matches replaced, borrowed iff no match, template-without-$ / NoExpand / closure agree, "
                     "identity closure leaves the text unchanged, an error of the first search is returned as Err. The iteration and slicing it is built on (find_iter / captures_iter steps, Match::as_str) ARE proved (C08, C09, C05)."),
        residual="Everything beyond the enumerated corpus; Replacer impls for Cow / String / ReplacerRef are exercised only through &str.",
        assumptions=["the corpus and bounds listed in coverage.bounded"],
    ),
    'C12': dict(
        kani=True,
        level='other',
        bounded_families=['expand', 'replace'],
        explanation=("BOUNDED, except for two callees that are under Verus contracts (Captures::get, parse_decimal). Expander::exec / parse_id are built on Chars::as_str, char_indices().peekable(), closures and full-Unicode char predicates: outside Verus' dialect, and intractable for Kani "
                     "(probed: char::is_alphanumeric pulls in the Unicode tables). The property is checked by the bounded family `expand`: every template up to length 6 over a 16-symbol alphabet (the property's, plus `-` and a non-ASCII numeric) "
                     "(exhaustive in the thorough tier; lengths <= 5 and part of 6 in the quick tier) x 4 captures setups (one with a group whose name is a number other than its index) x both expanders against an independent rendering of the documented syntax, plus the escape round trip and check's accept-only-if."),
        residual="Templates longer than 6 or outside the alphabet; identifiers with non-ASCII alphanumerics other than e-acute.",
        assumptions=["the corpus and bounds listed in coverage.bounded"],
    ),
}
