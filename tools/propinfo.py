"""Per-property metadata used in evidence files (level, what is proved, residual, standing assumptions)."""

T_VSTD = "T-vstd: vstd's specifications of Vec, Option, Result, BTreeSet, str/UTF-8, ranges, for-loops"
T_ARITH = "machine arithmetic is NOT treated as mathematical: Verus checks every + - * for overflow"
T_EXTRACT = ("extraction: function bodies are cut from /repo/src on every run by a brace/string/comment-aware scanner "
             "(tools/rsx.py); rewrites R1-R8 (coverage.rewrite_rules, hit counts in coverage.units[].rewrite_hits) are assumed semantics-preserving")

PROPS = {
    'C20': dict(
        level='proof',
        explanation=("Every State operation of vm.rs (new, push, pop, save, get, stack_push, stack_pop, backtrack_count, backtrack_cut) "
                     "is verified by Verus, for all stack depths / slot counts / histories, against an abstract view "
                     "(slots, explicit stack, sequence of pending frames each holding the WHOLE state at creation): pop restores exactly the newest frame; "
                     "save/stack_push/stack_pop change only the current values and no frame; backtrack_cut keeps current values and frames.take(count)."),
        residual="U-RUN arms (BeginAtomic/EndAtomic/FailNegativeLookAround) are owned by C20 as soon as U-RUN is wired; until then only the State discipline is decided.",
        assumptions=[T_VSTD, T_ARITH, T_EXTRACT, "T-swap: <[T]>::swap swaps two in-bounds elements", "T-veclen: a Vec's length is <= usize::MAX (<= isize::MAX for Vec<usize>)"],
    ),
}
