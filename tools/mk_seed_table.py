#!/usr/bin/env python3
"""mk_seed_table -- regenerate DESIGN.md section 12.8's table from .build/selftest_results_merged.json (the latest verdict of every case, kept by tools/selftest.py over partial runs)."""
import json, os, re
V = os.path.dirname(os.path.dirname(os.path.abspath(__file__)))
_m = os.path.join(V, '.build', 'selftest_results_merged.json')
res = json.load(open(_m if os.path.exists(_m) else os.path.join(V, '.build', 'selftest_results.json')))
def key(c):
    m = re.match(r'(seeded|selftest)/(C\d+)-(\d+)$', c)
    return (0, m.group(2), int(m.group(3))) if m else (1, c, 0)
rows = []
n_proof = n_bounded = n_benign = n_miss = 0
for r in sorted(res, key=lambda r: key(r['case'])):
    got = r['detail'].split('got=')[-1]
    exp = r['detail'].split('expect=')[1].split()[0]
    if r['status'] != 'OK':
        by = '**MISSED**'; n_miss += 1
    elif exp == 'pass':
        by = 'passes (benign variant)'; n_benign += 1
    elif 'bounded' in r.get('by', ''):
        by = 'bounded family'; n_bounded += 1
    else:
        by = 'proof (named obligation)'; n_proof += 1
    summ = ''
    mp = os.path.join(V, r['case'], 'meta.json')
    if os.path.exists(mp):
        m = json.load(open(mp))
        summ = (m.get('summary') or m.get('note') or '')
        summ = re.sub(r'\s+', ' ', summ).replace('|', '\\|')
        if len(summ) > 150:
            summ = summ[:147] + '...'
    rows.append('| %s | %s | %s | %s |' % (r['case'], got, by, summ))
head = ('%d cases: %d caught by a failed proof obligation, %d only by a bounded family (labelled bounded), %d benign variants that must pass and do, %d missed.\n\n'
        % (len(res), n_proof, n_bounded, n_benign, n_miss))
table = head + '| case | verdict of the owning check(s) | caught by | what was changed |\n|---|---|---|---|\n' + '\n'.join(rows) + '\n'
p = os.path.join(V, 'DESIGN.md')
d = open(p).read()
a = d.index('<!-- SEEDTABLE-BEGIN -->') + len('<!-- SEEDTABLE-BEGIN -->\n')
b = d.index('<!-- SEEDTABLE-END -->')
open(p, 'w').write(d[:a] + table + d[b:])
print(head)
