#!/usr/bin/env python3
"""selftest -- run the checks against seeded wrong bodies (must be caught) and benign variants (must pass).

Each case is a directory selftest/<name>/ or seeded/<name>/ with patch.diff and meta.json
({"property": "C20", "expect": "violation" | "pass", ...}).  The patch is applied to a scratch copy of
/repo under .build/ (never to /repo itself) and the check is pointed at it with VERIF_REPO.
"""
import json
import os
import shutil
import subprocess
import sys
import concurrent.futures as cf

VERIF = os.path.dirname(os.path.dirname(os.path.abspath(__file__)))


def run_case(d, idx, fallback=False):
    meta = json.load(open(os.path.join(d, 'meta.json')))
    props = meta.get('properties') or [meta['property']]
    expect = meta.get('expect', 'violation')
    scratch = os.path.join(VERIF, '.build', 'st_repo_%d' % idx)
    shutil.rmtree(scratch, ignore_errors=True)
    os.makedirs(scratch)
    for f in ('src', 'Cargo.toml', 'Cargo.lock', 'benches'):
        s = os.path.join('/repo', f)
        if os.path.isdir(s):
            shutil.copytree(s, os.path.join(scratch, f))
        elif os.path.exists(s):
            shutil.copy(s, scratch)
    p = subprocess.run(['patch', '-p1', '-s', '-i', os.path.abspath(os.path.join(d, 'patch.diff'))], cwd=scratch, capture_output=True, text=True)
    if p.returncode != 0:
        return (d, 'PATCH-FAILED', p.stdout + p.stderr)
    res = []
    ok = True
    for prop in props:
        env = dict(os.environ, VERIF_REPO=scratch, VERIF_NO_CONCRETISE=os.environ.get('VERIF_NO_CONCRETISE', '1'), VERIF_NO_FALLBACK=('' if fallback else '1'), VERIF_NO_BOUNDED=('' if fallback else '1'),
                   VERIF_EVIDENCE_DIR=os.path.join(VERIF, '.build', 'st_evidence_%d' % idx), VERIF_BUILD_DIR=os.path.join(VERIF, '.build', 'st_build_%d' % idx),
                   VERIF_REPLAY_OUT=os.path.join(VERIF, '.build', 'st_evidence_%d' % idx))
        r = subprocess.run([os.path.join(VERIF, 'check'), prop], capture_output=True, text=True, env=env, cwd=VERIF)
        got = {0: 'pass', 1: 'violation', 2: 'undecided'}.get(r.returncode, 'rc%d' % r.returncode)
        res.append('%s:%s' % (prop, got))
        if expect == 'violation':
            pass
        elif got != 'pass':
            ok = False
    if expect == 'violation':
        ok = any(x.endswith(':violation') for x in res)
    shutil.rmtree(scratch, ignore_errors=True)
    for k in ('st_evidence_%d' % idx, 'st_build_%d' % idx):
        shutil.rmtree(os.path.join(VERIF, '.build', k), ignore_errors=True)
    return (d, 'OK' if ok else 'MISMATCH', 'expect=%s got=%s' % (expect, ' '.join(res)))


def main():
    dirs = sys.argv[1:]
    if not dirs:
        for base in ('selftest', 'seeded'):
            b = os.path.join(VERIF, base)
            if os.path.isdir(b):
                dirs += [os.path.join(b, x) for x in sorted(os.listdir(b)) if os.path.exists(os.path.join(b, x, 'patch.diff'))]
    bad = 0
    retry = []
    results = []
    with cf.ThreadPoolExecutor(max_workers=4) as ex:
        for (idx, d), (d2, st, msg) in zip(list(enumerate(dirs)), ex.map(lambda t: run_case(t[1], t[0]), list(enumerate(dirs)))):
            if st == 'MISMATCH' and 'expect=violation' in msg:
                retry.append((idx, d))
                continue
            print('%-10s %-40s %s' % (st, os.path.relpath(d, VERIF), msg))
            results.append(dict(case=os.path.relpath(d, VERIF), status=st, detail=msg, by='proof (failed obligation)'))
            if st != 'OK':
                bad += 1
    # units the verifier could not read on the changed tree: sequential re-run with the bounded stand-in enabled
    for idx, d in retry:
        d2, st, msg = run_case(d, idx, fallback=True)
        print('%-10s %-40s %s [bounded stand-in]' % (st, os.path.relpath(d, VERIF), msg))
        results.append(dict(case=os.path.relpath(d, VERIF), status=st, detail=msg, by='bounded family (labelled bounded)'))
        if st != 'OK':
            bad += 1
    json.dump(results, open(os.path.join(VERIF, '.build', 'selftest_results.json'), 'w'), indent=1)
    # running record over partial runs: the latest verdict of every case (tools/mk_seed_table.py reads this one)
    mp = os.path.join(VERIF, '.build', 'selftest_results_merged.json')
    merged = {r['case']: r for r in (json.load(open(mp)) if os.path.exists(mp) else [])}
    for r in results:
        merged[r['case']] = r
    json.dump(list(merged.values()), open(mp, 'w'), indent=1)
    sys.exit(1 if bad else 0)


if __name__ == '__main__':
    main()
