"""build_unit -- expand a contract template (contracts/<unit>.vrs) into a Verus file.

Function bodies and type definitions are cut from /repo's working tree on every run;
the template supplies only contracts (requires/ensures/invariants), ghost code, spec
functions, lemmas and the shim prelude.  See DESIGN.md section 2.1.
"""
import json
import os
import re
import sys

sys.path.insert(0, os.path.dirname(os.path.abspath(__file__)))
import rsx  # noqa: E402


class BuildError(Exception):
    """Extraction could not be performed (lost anchor, rewrite mismatch, ...) => UNDECIDED."""
    pass


# --------------------------------------------------------------------------
# rewrite rules (DESIGN.md 2.1).  Every rule preserves the number of lines.
# --------------------------------------------------------------------------

def _keep_lines(s):
    return '\n' * s.count('\n')


def rw_R1(text):
    """for &T { f, .. } in &E[a..b] {   ->   for __i in a..(b|E.len()) { let f = E[__i].f;"""
    pat = re.compile(r'for\s+&(\w+)\s*\{\s*(\w+)\s*,\s*\.\.\s*\}\s+in\s+&([\w\.]+)\[([^\]\n]*?)\.\.([^\]\n]*?)\]\s*\{')
    n = 0

    def sub(m):
        nonlocal n
        n += 1
        ty, f, e, a, b = m.groups()
        b = b.strip() or (e + '.len()')
        return 'for __i in %s..%s { let %s = %s[__i].%s;' % (a.strip(), b, f, e, f) + _keep_lines(m.group(0))
    return pat.sub(sub, text), n


def rw_R2(text):
    pat = re.compile(r'Some\(&(\w+)\)\s*=>\s*\1\s*,')
    n = len(pat.findall(text))
    return pat.sub(lambda m: 'Some(%s) => *%s,' % (m.group(1), m.group(1)), text), n


def rw_R3(text):
    """x &= E;  ->  { let __t = E; x = x && __t; }     x |= E;  likewise ;   `= A | B;` on bools -> { let __a = A; let __b = B; __a || __b }"""
    n = 0

    def sub_and(m):
        nonlocal n
        n += 1
        return '{ let __t = %s; %s = %s && __t; }' % (m.group(2).strip(), m.group(1), m.group(1)) + _keep_lines(m.group(0))

    def sub_or(m):
        nonlocal n
        n += 1
        return '{ let __t = %s; %s = %s || __t; }' % (m.group(2).strip(), m.group(1), m.group(1)) + _keep_lines(m.group(0))
    text = re.sub(r'(?<![\w\.])((?:\w+\.)*\w+)\s*&=\s*([^;]+);', sub_and, text)
    text = re.sub(r'(?<![\w\.])((?:\w+\.)*\w+)\s*\|=\s*([^;]+);', sub_or, text)

    def sub_bar(m):
        nonlocal n
        n += 1
        return '%s = { let __a = %s; let __b = %s; __a || __b };' % (m.group(1), m.group(2).strip(), m.group(3).strip()) + _keep_lines(m.group(0))
    text = re.sub(r'\b(\w+)\s*=\s*([\w\.]+)\s*\|\s*([\w\.\(\)]+)\s*;', sub_bar, text)
    return text, n


def rw_R4(text):
    pat = re.compile(r'\(([\w\[\]\.]+)\s+as\s+i8\)')
    n = len(pat.findall(text))
    return pat.sub(lambda m: '(#[verifier::truncate] (%s as i8))' % m.group(1), text), n


def rw_R5(text):
    """drop tracing: `#[cfg(feature = "std")] if .. OPTION_TRACE .. { .. }`, `self.trace_stack(..);`, debug_assert!"""
    n = 0
    out = text
    while True:
        m = re.search(r'#\[cfg\(feature = "std"\)\]\s*if\s+[^{]*OPTION_TRACE[^{]*\{', out)
        if not m:
            break
        msk = rsx.mask(out)
        close = rsx.match_close(msk, m.end() - 1)
        out = out[:m.start()] + _keep_lines(out[m.start():close + 1]) + out[close + 1:]
        n += 1

    def sub(m):
        nonlocal n
        n += 1
        return _keep_lines(m.group(0))
    out = re.sub(r'self\.trace_stack\([^;]*\);', sub, out)
    out = re.sub(r'debug_assert!\([^;]*\);', sub, out)
    return out, n


def rw_R8(text):
    """drop the test-only PATTERN_MAPPING statement"""
    pat = re.compile(r'#\[cfg\(all\(test, feature = "std"\)\)\]\s*PATTERN_MAPPING[^;]*;')
    n = len(pat.findall(text))
    return pat.sub(lambda m: _keep_lines(m.group(0)), text), n


def rw_R10(text):
    """for (i, x) in V.iter().enumerate() {   ->   for i in 0..V.len() { let x = &V[i];"""
    pat = re.compile(r'for\s+\(\s*(\w+)\s*,\s*(\w+)\s*\)\s+in\s+([\w\.]+)\.iter\(\)\.enumerate\(\)\s*\{')
    n = len(pat.findall(text))
    return pat.sub(lambda m: 'for %s in 0..%s.len() { let %s = &%s[%s];' % (m.group(1), m.group(3), m.group(2), m.group(3), m.group(1)), text), n


def rw_R11(text):
    """if let Some(&x) = E {   ->   if let Some(__r) = E { let x = *__r;"""
    pat = re.compile(r'if\s+let\s+Some\(&(\w+)\)\s*=\s*([^{]+?)\s*\{')
    n = len(pat.findall(text))
    return pat.sub(lambda m: 'if let Some(__r) = %s { let %s = *__r;' % (m.group(2), m.group(1)), text), n


def rw_R9(text):
    """RECV.map(|PAT| BODY)  ->  (match RECV { Some(PAT) => Some(BODY), None => None })   for a simple-path receiver"""
    n = 0
    out = text
    pos = 0
    while True:
        msk = rsx.mask(out)
        m = re.compile(r'\b([A-Za-z_][A-Za-z0-9_]*)\s*\.\s*map\(\s*\|').search(msk, pos)
        if not m:
            break
        recv = m.group(1)
        po = msk.index('(', m.start())
        pc = rsx.match_close(msk, po)
        bar1 = msk.index('|', po)
        bar2 = msk.index('|', bar1 + 1)
        pat = out[bar1 + 1:bar2].strip()
        body = out[bar2 + 1:pc].strip()
        new = '(match %s { Some(%s) => Some(%s), None => None })' % (recv, pat, body)
        # keep the line count
        lost = out[m.start():pc + 1].count('\n') - new.count('\n')
        out = out[:m.start()] + new + ('\n' * max(0, lost)) + out[pc + 1:]
        pos = m.start() + len(new)
        n += 1
    return out, n


def rw_R12(text):
    """f(.., |a, b| EXPR)   ->   f(.., |a, b| { EXPR })   (an expression-bodied closure as the last argument gets a block body, so that
    a contract can be attached to its header)"""
    n = 0
    out = text
    pos = 0
    while True:
        msk = rsx.mask(out)
        m = re.compile(r'[,(]\s*\|([^|\n]*)\|\s*(?![\s{])').search(msk, pos)
        if not m:
            break
        depth = 0
        j = m.end()
        while j < len(msk):
            ch = msk[j]
            if ch in '([{':
                depth += 1
            elif ch in ')]}':
                if depth == 0:
                    break
                depth -= 1
            j += 1
        if j >= len(msk) or msk[j] != ')':
            pos = m.end()
            continue
        out = out[:m.end()] + '{ ' + out[m.end():j] + ' }' + out[j:]
        pos = j + 4
        n += 1
    return out, n


def rw_R13(text):
    """E.iter().take_while(|c| COND).count()        ->  { let __s = &(E); let mut __n: usize = 0; let mut __go = true; while __go && __n < __s.len() { let c = &__s[__n]; if COND { __n += 1; } else { __go = false; } } __n }
       E.iter().rev().take_while(|c| COND).count()  ->  the same, looking at __s[__s.len() - 1 - __n]
    (the number of leading / trailing elements that satisfy COND, as a loop: Verus has no iterator adapters)"""
    n = 0
    out = text
    pos = 0
    pat = re.compile(r'\.\s*iter\(\)\s*(\.\s*rev\(\)\s*)?\.\s*take_while\(\s*\|\s*(\w+)\s*\|')
    while True:
        msk = rsx.mask(out)
        m = pat.search(msk, pos)
        if not m:
            break
        # receiver expression: scan backwards over a postfix chain (identifiers, `.`, whitespace, balanced [..] / (..))
        i = m.start()
        while i > 0:
            ch = msk[i - 1]
            if ch.isalnum() or ch in '_.' or ch.isspace():
                i -= 1
            elif ch in ')]':
                depth = 0
                k = i - 1
                while k >= 0:
                    if msk[k] in ')]':
                        depth += 1
                    elif msk[k] in '([':
                        depth -= 1
                        if depth == 0:
                            break
                    k -= 1
                i = k
            else:
                break
        # do not swallow a leading keyword / `=` context: strip leading whitespace
        recv = msk[i:m.start()]          # masked: comments inside the chain are blank
        lead = len(recv) - len(recv.lstrip())
        i += lead
        recv = msk[i:m.start()].strip()
        po = msk.index('(', msk.index('take_while', m.start()))
        pc = rsx.match_close(msk, po)
        bar2 = m.end() - 1
        cond = out[bar2 + 1:pc].strip()
        tail = re.compile(r'\s*\.\s*count\(\)').match(msk, pc + 1)
        if not tail:
            pos = m.end()
            continue
        var = m.group(2)
        ix = '__s.len() - 1 - __n' if m.group(1) else '__n'
        new = '{ let __s = &(%s); let mut __n: usize = 0; let mut __go = true; while __go && __n < __s.len() { let %s = &__s[%s]; if %s { __n += 1; } else { __go = false; } } __n }' % (
            ' '.join(recv.split()), var, ix, cond)
        old = out[i:tail.end()]
        lost = old.count('\n') - new.count('\n')
        out = out[:i] + new + ('\n' * max(0, lost)) + out[tail.end():]
        pos = i + len(new)
        n += 1
    return out, n


def rw_R14(text):
    """E.iter().all(|e| COND)  ->  { let __s = &(E); let mut __k: usize = 0; let mut __all = true; while __all && __k < __s.len() { let e = &__s[__k]; if COND { __k += 1; } else { __all = false; } } __all }"""
    n = 0
    out = text
    pos = 0
    pat = re.compile(r'\.\s*iter\(\)\s*\.\s*all\(\s*\|\s*(&?)\s*(\w+)\s*\|')
    while True:
        msk = rsx.mask(out)
        m = pat.search(msk, pos)
        if not m:
            break
        i = m.start()
        while i > 0:
            ch = msk[i - 1]
            if ch.isalnum() or ch in '_.':
                i -= 1
            elif ch == ']':
                # an index / range expression `v[a..b]`: back to its opening bracket
                d = 0
                k = i - 1
                while k >= 0:
                    if msk[k] == ']':
                        d += 1
                    elif msk[k] == '[':
                        d -= 1
                        if d == 0:
                            break
                    k -= 1
                if k < 0:
                    break
                i = k
            else:
                break
        recv = msk[i:m.start()].strip()
        po = msk.index('(', msk.index('all', m.start()))
        pc = rsx.match_close(msk, po)
        cond = out[m.end():pc].strip()
        # `|e|` binds a reference to the element, `|&e|` the element itself
        new = '{ let __s = &(%s); let mut __k: usize = 0; let mut __all = true; while __all && __k < __s.len() { let %s = %s__s[__k]; if %s { __k += 1; } else { __all = false; } } __all }' % (
            recv, m.group(2), '' if m.group(1) else '&', cond)
        old = out[i:pc + 1]
        lost = old.count('\n') - new.count('\n')
        out = out[:i] + new + ('\n' * max(0, lost)) + out[pc + 1:]
        pos = i + len(new)
        n += 1
    return out, n


def rw_R15(text):
    """E.bytes().filter(|&b| COND).count()  ->  { let __b = (E).as_bytes(); let mut __c: usize = 0; let mut __i: usize = 0; while __i < __b.len() { let b = __b[__i]; if COND { __c += 1; } __i += 1; } __c }"""
    n = 0
    out = text
    pos = 0
    pat = re.compile(r'\b(\w+)\s*\.\s*bytes\(\)\s*\.\s*filter\(\s*\|\s*&(\w+)\s*\|')
    while True:
        msk = rsx.mask(out)
        m = pat.search(msk, pos)
        if not m:
            break
        po = msk.index('(', msk.index('filter', m.start()))
        pc = rsx.match_close(msk, po)
        cond = out[m.end():pc].strip()
        tail = re.compile(r'\s*\.\s*count\(\)').match(msk, pc + 1)
        if not tail:
            pos = m.end()
            continue
        new = '{ let __b = %s.as_bytes(); let mut __c: usize = 0; let mut __i: usize = 0; while __i < __b.len() { let %s = __b[__i]; if %s { __c += 1; } __i += 1; } __c }' % (
            m.group(1), m.group(2), cond)
        old = out[m.start():tail.end()]
        lost = old.count('\n') - new.count('\n')
        out = out[:m.start()] + new + ('\n' * max(0, lost)) + out[tail.end():]
        pos = m.start() + len(new)
        n += 1
    return out, n


def rw_R16(text):
    """b'x' | b'y' | .. if GUARD =>   ->   __c if (__c == b'x' || __c == b'y' || ..) && (GUARD) =>   (a match arm over byte literals with a guard)"""
    n = 0
    pat = re.compile(r"((?:b'(?:\\.|[^'\\])'\s*\|\s*)+b'(?:\\.|[^'\\])')[ \t]+if[ \t]+([^\n]*?)[ \t]*=>")
    def rep(m):
        nonlocal n
        alts = [a.strip() for a in re.findall(r"b'(?:\\.|[^'\\])'", m.group(1))]
        n += 1
        return '__c if (%s) && (%s) =>' % (' || '.join('__c == ' + a for a in alts), m.group(2))
    out = pat.sub(rep, text)
    return out, n


REWRITES = {'R16': rw_R16, 'R15': rw_R15, 'R14': rw_R14, 'R13': rw_R13, 'R12': rw_R12, 'R11': rw_R11, 'R10': rw_R10, 'R9': rw_R9, 'R1': rw_R1, 'R2': rw_R2, 'R3': rw_R3, 'R4': rw_R4, 'R5': rw_R5, 'R8': rw_R8}
REWRITE_DOC = {
    'R1': 'for &T{f,..} in &E[a..b]  ->  for __i in a..b { let f = E[__i].f; (Verus: no ref patterns)',
    'R2': 'Some(&b) => b  ->  Some(b) => *b (Verus: no ref patterns)',
    'R3': 'x &= E / x |= E / a | b on bools -> short-circuit form with the operand still evaluated first',
    'R4': '(E as i8) -> (#[verifier::truncate] (E as i8))',
    'R5': 'dropped: OPTION_TRACE printing blocks, self.trace_stack(..), debug_assert!',
    'R6': 'impl Trait for X { fn f } extracted as inherent fn (trait header and `type Item` dropped; Self::Item spelled out)',
    'R7': 'visibility modifiers / attributes / doc comments of extracted items dropped; struct fields made pub',
    'R8': 'dropped: #[cfg(all(test, feature = "std"))] PATTERN_MAPPING statement',
    'R9': 'RECV.map(|PAT| BODY) -> match RECV { Some(PAT) => Some(BODY), None => None } (Verus cannot reason about un-annotated closures)',
    'R10': 'for (i, x) in V.iter().enumerate() -> for i in 0..V.len() { let x = &V[i]; (Verus: no iterator adapters)',
    'R11': 'if let Some(&x) = E { -> if let Some(__r) = E { let x = *__r; (Verus: no ref patterns)',
    'R12': 'f(.., |a, b| EXPR) -> f(.., |a, b| { EXPR }) (block body, so that a closure contract can be attached to the header)',
    'R13': 'E.iter()[.rev()].take_while(|c| COND).count() -> a counting while-loop over the same elements from the front [back] (Verus: no iterator adapters)',
    'R14': 'E.iter().all(|e| COND) -> a while-loop over the same elements that stops at the first one failing COND (Verus: no iterator adapters)',
    'R15': 'E.bytes().filter(|&b| COND).count() -> a counting while-loop over E.as_bytes() (Verus: no iterator adapters)',
    'R16': "b'x' | b'y' | .. if G =>  ->  __c if (__c == b'x' || __c == b'y' || ..) && (G) =>  (Verus: no or-patterns with a guard over an indexed scrutinee)",
    'ARMSUB': 'a named match arm (delegation to regex-automata) is replaced by a call to an assumed shim; the dropped text is listed in dropped_code',
}


# --------------------------------------------------------------------------

def norm(s):
    return ' '.join(s.split())


def find_norm(hay, needle, k=1):
    """Find k-th occurrence of whitespace-normalised `needle` in hay; returns (start,end) in hay."""
    toks = [re.escape(t) for t in needle.split()]
    pat = re.compile(r'\s*'.join(toks))
    ms = list(pat.finditer(hay))
    if len(ms) < k:
        return None
    return ms[k - 1].start(), ms[k - 1].end(), len(ms)


class Out:
    """Accumulates output text with per-line origin."""

    def __init__(self):
        self.lines = []   # text
        self.origin = []  # (kind, file, line)
        self._cur = ''
        self._cur_origin = None

    def add(self, text, origin_fn):
        """origin_fn(k) -> origin for the k-th line (0-based) of text."""
        parts = text.split('\n')
        for k, p in enumerate(parts):
            if p.strip() and self._cur_origin is None:
                self._cur_origin = origin_fn(k)
            self._cur += p
            if k < len(parts) - 1:
                self.lines.append(self._cur)
                self.origin.append(self._cur_origin or origin_fn(k))
                self._cur = ''
                self._cur_origin = None

    def finish(self):
        if self._cur:
            self.lines.append(self._cur)
            self.origin.append(self._cur_origin)
            self._cur = ''
        return '\n'.join(self.lines) + '\n'


class UnitBuilder:
    def __init__(self, repo, template_path, twin=False):
        self.repo = repo
        self.twin = twin
        self.tpath = template_path
        self.srcs = {}
        self.out = Out()
        self.rewrite_hits = {}
        self.functions = []   # dict(path, file, repo_lines, out_lines, name)
        self.items = []
        self.dropped = []
        self.viewfns = []
        self.spec_fns = []

    def src(self, f):
        if f not in self.srcs:
            p = os.path.join(self.repo, 'src', f)
            if not os.path.exists(p):
                raise BuildError('source file missing: ' + p)
            self.srcs[f] = rsx.Source(p)
        return self.srcs[f]

    def hit(self, rule, where, n):
        self.rewrite_hits.setdefault(rule, {})[where] = n

    # ---- items -----------------------------------------------------------
    def emit_item(self, f, kind, name, opts, tline):
        if any(i['kind'] == kind and i['name'] == name for i in self.items):
            return   # already emitted through another include
        s = self.src(f)
        try:
            hs, kw, bo, bc = s.find_item(kind, name)
        except rsx.ScanError as e:
            raise BuildError(str(e))
        text = s.text[kw:bc + 1]
        line0 = s.line_of(kw)
        # strip doc comments and attributes inside, make fields pub
        lines = text.split('\n')
        outl = []
        for ln in lines:
            st = ln.strip()
            if st.startswith('///') or st.startswith('//'):
                outl.append('')
                continue
            if st.startswith('#['):
                outl.append('')
                continue
            ln = re.sub(r'\bpub\(crate\)\s+', '', ln)
            ln = re.sub(r'^(\s*)pub\s+', r'\1', ln)
            if kind == 'struct':
                ln = re.sub(r'^(\s+)([a-z_][A-Za-z0-9_]*\s*:)', r'\1pub \2', ln)
            outl.append(ln)
        body = '\n'.join(outl)
        if kind == 'struct' and re.match(r'struct\s+\w+(<[^>]*>)?\s*\(', body):
            body = re.sub(r'\(\s*', '(pub ', body, count=1)
            body = re.sub(r',\s*(?=[A-Za-z&])', ', pub ', body)
        derive = opts.get('derive')
        pre = ''
        if derive:
            pre = '#[derive(%s)] ' % derive.replace(',', ', ')
        self.out.add(pre + 'pub ' + body + '\n', lambda k: ('repo', f, line0 + k))
        self.items.append(dict(kind=kind, name=name, file=f, line=line0, derive_kept=derive or ''))

    def emit_const(self, f, name):
        s = self.src(f)
        try:
            a, b = s.find_const(name)
        except rsx.ScanError as e:
            raise BuildError(str(e))
        text = s.text[a:b].strip()
        text = re.sub(r'^pub(\([^)]*\))?\s+', '', text)
        line0 = s.line_of(a + (len(s.text[a:b]) - len(s.text[a:b].lstrip())))
        self.out.add('pub ' + text + '\n', lambda k: ('repo', f, line0 + k))
        self.items.append(dict(kind='const', name=name, file=f, line=line0))

    # ---- functions ------------------------------------------------------
    def emit_fn(self, f, path, opts, blocks, tline):
        s = self.src(f)
        try:
            fn = s.find_fn(path)
        except rsx.ScanError as e:
            raise BuildError(str(e))
        where = '%s::%s' % (f, path)
        sig = fn.signature.rstrip()
        sig_line0 = s.line_of(fn.fn_kw)
        # signature rewrites
        if opts.get('ret'):
            msk = rsx.mask(sig)
            # find '->' at depth 0 after params
            p_open = msk.find('(')
            p_close = rsx.match_close(msk, p_open)
            arrow = msk.find('->', p_close)
            if arrow >= 0:
                wh = re.search(r'\bwhere\b', msk[arrow:])
                end = arrow + wh.start() if wh else len(sig)
                ret_ty = sig[arrow + 2:end].strip()
                sig = sig[:arrow] + '-> (%s: %s)' % (opts['ret'], ret_ty) + (' ' + sig[end:] if wh else '')
            else:
                raise BuildError('%s: ret= given but no return type' % where)
        if fn.impl_header and ' for ' in fn.impl_header:
            # R6: trait impl method extracted as an inherent fn; spell out Self::Item
            item_m = re.search(r'type\s+Item\s*=\s*([^;]+);', self._impl_text(s, fn))
            if item_m:
                sig = sig.replace('Self::Item', item_m.group(1).strip())
            self.hit('R6', where, 1)
        for a, b in opts.get('sigsub', []):
            if a not in sig:
                raise BuildError('%s: sigsub pattern not found: %s' % (where, a))
            sig = sig.replace(a, b)
        if opts.get('rename'):
            sig = re.sub(r'\bfn\s+' + re.escape(fn.name) + r'\b', 'fn ' + opts['rename'], sig, count=1)

        body = fn.body
        body_line0 = s.line_of(fn.body_open)
        # presub: a listed literal substitution applied BEFORE the rewrite rules (so that a rule can work on its result)
        for a, b in opts.get('presub', []):
            got = find_norm(body, a)
            if not got:
                raise BuildError('%s: presub pattern not found: %s' % (where, a))
            st, en, cnt = got
            body = body[:st] + b + _keep_lines(body[st:en]) + body[en:]
            self.hit('S:' + a[:30], where, 1)
        # rewrites (R5 always)
        rules = ['R5'] + [r for r in opts.get('rewrite', {}).keys()]
        for r in rules:
            body2, n = REWRITES[r](body)
            exp = opts.get('rewrite', {}).get(r)
            if r != 'R5' and exp is not None and n != exp:
                raise BuildError('rewrite %s expected %d hits in %s, got %d' % (r, exp, where, n))
            if n:
                self.hit(r, where, n)
            assert body2.count('\n') == body.count('\n')
            body = body2
        for a, b in opts.get('bodysub', []):
            got = find_norm(body, a)
            if not got:
                raise BuildError('%s: bodysub pattern not found: %s' % (where, a))
            st, en, cnt = got
            body = body[:st] + b + _keep_lines(body[st:en]) + body[en:]
            self.hit('S:' + a[:30], where, 1)

        for hdr, pat, repl in opts.get('armsub', []):
            B0 = rsx.Body(body)
            blks = [b for b in B0.match_blocks() if hdr in b['header']]
            if len(blks) != 1:
                raise BuildError('%s: armsub: %d match blocks with header containing %r' % (where, len(blks), hdr))
            arms = [x for x in B0.arms(blks[0]) if re.match(re.escape(pat) + r'(?![A-Za-z0-9_])', x['pat'])]
            if len(arms) != 1:
                raise BuildError('%s: armsub: %d arms starting with %r' % (where, len(arms), pat))
            arm = arms[0]
            a0, a1 = arm['body_start'], (arm['body_end'] + 1 if arm['block'] else arm['body_end'])
            old = body[a0:a1]
            self.dropped.append(dict(where=where, arm=arm['pat'], dropped=norm(old)[:400], replaced_by=repl))
            body = body[:a0] + '{ ' + repl + ' }' + _keep_lines(old) + body[a1:]
            self.hit('ARMSUB', where + ' ' + pat, 1)
        B = rsx.Body(body)
        ins = []   # (pos, order, text, origin)
        order = 0
        for blk in blocks:
            anchor = blk['anchor']
            text = blk['text']
            origin = ('spec', blk.get('tname') or os.path.basename(self.tpath), blk['line'])
            order += 1
            try:
                for pos, txt in self._resolve(B, anchor, text, where):
                    ins.append((pos, order, txt, origin))
            except rsx.ScanError as e:
                raise BuildError('%s: %s' % (where, e))
        if self.twin and any(b['anchor'] == 'spec' for b in blocks):
            ins.append((1, -1, '\n proof { assert(false); } // TWIN-VACUITY\n', ('spec', 'twin', 0)))
        ins.sort(key=lambda t: (t[0], t[1]))

        out_start = len(self.out.lines) + 1
        attrs = opts.get('attrs', '')
        if attrs:
            self.out.add(attrs + '\n', lambda k: ('spec', os.path.basename(self.tpath), tline))
        self.out.add(sig + '\n', lambda k: ('repo', f, sig_line0 + k))
        for blk in blocks:
            if blk['anchor'] == 'spec':
                self.out.add(blk['text'], (lambda L, T: (lambda k: ('spec', T, L + 1 + k)))(blk['line'], blk.get('tname') or os.path.basename(self.tpath)))
        # body with insertions

        def repo_origin(offset):
            base = body_line0 + body[:offset].count('\n')
            return lambda k: ('repo', f, base + k)
        cur = 0
        for pos, _, txt, origin in ins:
            self.out.add(body[cur:pos], repo_origin(cur))
            self.out.add(txt, (lambda o: (lambda k: (o[0], o[1], o[2] + 1 + k)))(origin))
            cur = pos
        self.out.add(body[cur:] + '\n', repo_origin(cur))
        out_end = len(self.out.lines)
        self.functions.append(dict(path=path, file=f, name=opts.get('rename') or fn.name,
                                   repo_lines=[sig_line0, s.line_of(fn.body_close)],
                                   out_lines=[out_start, out_end], contracted=any(b['anchor'] == 'spec' for b in blocks)))

    def emit_shim(self, f, path, opts, blocks, tname, L):
        """external_body shim of a function whose contract is proved in another unit: real signature, the template's spec text"""
        s = self.src(f)
        try:
            fn = s.find_fn(path)
        except rsx.ScanError as e:
            raise BuildError(str(e))
        sig = fn.signature.rstrip()
        if opts.get('ret'):
            msk = rsx.mask(sig)
            p_open = msk.find('(')
            p_close = rsx.match_close(msk, p_open)
            arrow = msk.find('->', p_close)
            if arrow >= 0:
                sig = sig[:arrow] + '-> (%s: %s)' % (opts['ret'], sig[arrow + 2:].strip())
        for a, b in opts.get('sigsub', []):
            sig = sig.replace(a, b)
        sig = re.sub(r'\bmut\s+(\w+\s*:)', r'\1', sig)   # `mut x: T` parameters are irrelevant for a body-less shim
        spec = ''.join(b['text'] for b in blocks if b['anchor'] == 'spec')
        spec = re.sub(r'^\s*decreases[^\n]*\n', '', spec, flags=re.M)
        line0 = s.line_of(fn.fn_kw)
        self.out.add('#[verifier::external_body]\n' + sig + '\n', lambda k: ('repo', f, line0 + k))
        self.out.add(spec + '{ unimplemented!() }\n', lambda k: ('spec', tname, L + k))
        self.viewfns.append(dict(path=path, mode='assume', template=tname, line=L))

    def emit_viewfn(self, f, path, opts, secs, mode, tname, L):
        """View-level contract of a function, used two ways: mode=prove -> an exec wrapper `name__view` that calls the real
        (verified) function, so Verus checks view-pre ==> real pre and real post ==> view-post; mode=assume -> an external_body
        shim `name` carrying the SAME text (a caller is checked against the callee's contract, not its body)."""
        s = self.src(f)
        try:
            fn = s.find_fn(path)
        except rsx.ScanError as e:
            raise BuildError(str(e))
        sig = fn.signature.rstrip()
        line0 = s.line_of(fn.fn_kw)
        msk = rsx.mask(sig)
        p_open = msk.find('(')
        p_close = rsx.match_close(msk, p_open)
        params = sig[p_open + 1:p_close]
        arrow = msk.find('->', p_close)
        ret_ty = sig[arrow + 2:].strip() if arrow >= 0 else None
        retname = opts.get('ret', 'r')
        # argument names (skip self)
        names = []
        depth = 0
        curp = ''
        for ch in params + ',':
            if ch in '(<[':
                depth += 1
            if ch in ')>]':
                depth -= 1
            if ch == ',' and depth == 0:
                pn = curp.strip()
                curp = ''
                if pn and 'self' not in pn.split(':')[0]:
                    names.append(pn.split(':')[0].replace('mut ', '').strip())
                continue
            curp += ch
        has_self = 'self' in params.split(',')[0]
        origin = lambda k: ('spec', tname, L + k)
        spec = ''
        if secs['pre'].strip():
            spec += '        requires\n' + secs['pre']
        if secs['post'].strip():
            spec += '        ensures\n' + secs['post']
        name = fn.name
        if mode == 'assume':
            hdr = '#[verifier::external_body]\nfn %s(%s)%s\n' % (name, params, (' -> (%s: %s)' % (retname, ret_ty)) if ret_ty else '')
            self.out.add(hdr + spec + '{ unimplemented!() }\n', origin)
            self.viewfns.append(dict(path=path, mode='assume', template=tname, line=L))
        else:
            call = ('self.' if has_self else (path.split('::')[0] + '::' if '::' in path else '')) + name + '(' + ', '.join(names) + ')'
            hdr = 'fn %s__view(%s)%s\n' % (name, params, (' -> (%s: %s)' % (retname, ret_ty)) if ret_ty else '')
            body = '{\n' + secs['hint'] + '        ' + call + '\n}\n'
            out_start = len(self.out.lines) + 1
            self.out.add(hdr + spec + body, origin)
            self.viewfns.append(dict(path=path, mode='prove', template=tname, line=L, wrapper=name + '__view', out_lines=[out_start, len(self.out.lines)]))

    def _impl_text(self, s, fn):
        for (t, h, bo, bc) in s.impls():
            if bo < fn.fn_kw < bc:
                return s.text[bo:bc]
        return ''

    def _resolve(self, B, anchor, text, where):
        """Return list of (pos, text) insertions for an anchor."""
        a = anchor.split()
        if anchor == 'spec':
            return []
        if a[0] == 'fn-start':
            return [(1, '\n' + text)]
        if a[0] == 'fn-end':
            return [(len(B.text) - 1, '\n' + text)]
        if a[0] == 'before-tail':
            t = B.tail_start()
            if t is None:
                raise rsx.ScanError('before-tail: function has no tail expression')
            return [(t, text)]
        if a[0] in ('before-loop', 'after-loop'):
            lp = self._loop(B, int(a[1]))
            return [(lp['start'], text)] if a[0] == 'before-loop' else [(lp['close'] + 1, '\n' + text)]
        if a[0] == 'loop':
            lp = self._loop(B, int(a[1]))
            what = a[2]
            if what == 'inv':
                return [(lp['open'], '\n' + text)]
            if what == 'body-start':
                return [(lp['open'] + 1, '\n' + text)]
            if what == 'body-end':
                return [(lp['close'], '\n' + text)]
            if what == 'iter':
                # for PAT in <here>EXPR
                m = re.search(r'\sin\s+', B.mask[lp['kw_pos']:lp['open']])
                if not m:
                    raise rsx.ScanError('loop %s iter: no `in`' % a[1])
                return [(lp['kw_pos'] + m.end(), a[3] + ': ')]
            raise rsx.ScanError('unknown loop anchor ' + anchor)
        if a[0] in ('after-stmt', 'before-stmt'):
            st = B.stmts()
            n = int(a[1])
            if n < 1 or n > len(st):
                raise rsx.ScanError('%s %d not found (function body has %d top-level statements)' % (a[0], n, len(st)))
            return [(st[n - 1][1], '\n' + text)] if a[0] == 'after-stmt' else [(st[n - 1][0], text)]
        if a[0] in ('before-continue', 'before-return'):
            lst = B.continues if a[0] == 'before-continue' else B.returns
            n = int(a[1])
            if n < 1 or n > len(lst):
                raise rsx.ScanError('%s %d not found (function has %d)' % (a[0], n, len(lst)))
            return [(lst[n - 1], text)]
        if a[0] in ('before-if', 'after-if'):
            d = self._if(B, int(a[1]))
            return [(d['start'], text)] if a[0] == 'before-if' else [(d['end'], '\n' + text)]
        if a[0] == 'if':
            d = self._if(B, int(a[1]))
            what = a[2]
            if what == 'then-start':
                return [(d['then_open'] + 1, '\n' + text)]
            if what == 'then-end':
                return [(d['then_close'], '\n' + text)]
            if d['else_open'] is None:
                raise rsx.ScanError('if %s has no plain else block' % a[1])
            if what == 'else-start':
                return [(d['else_open'] + 1, '\n' + text)]
            if what == 'else-end':
                return [(d['else_close'], '\n' + text)]
            raise rsx.ScanError('unknown if anchor ' + anchor)
        if a[0] == 'arm':
            # arm <match header substring> | <pattern prefix> | start|end
            _, rest = anchor.split(' ', 1)
            hdr, pat, whr = [x.strip() for x in rest.split('|')]
            blks = [b for b in B.match_blocks() if hdr in b['header']]
            if len(blks) != 1:
                raise rsx.ScanError('arm: %d match blocks with header containing %r' % (len(blks), hdr))
            arms = [x for x in B.arms(blks[0]) if re.match(re.escape(pat) + r'(?![A-Za-z0-9_])', x['pat'])]
            if len(arms) != 1:
                raise rsx.ScanError('arm: %d arms starting with %r' % (len(arms), pat))
            arm = arms[0]
            mm = re.match(r'(after|before)-stmt\s+(\d+)$', whr)
            if mm:
                # statement N of a block arm (structural: counts statements, does not look at their text)
                if not arm['block']:
                    raise rsx.ScanError('arm %s: %s needs a block arm' % (pat, whr))
                sub = rsx.Body(B.text[arm['body_start']:arm['body_end'] + 1])
                st = sub.stmts()
                n = int(mm.group(2))
                if n < 1 or n > len(st):
                    raise rsx.ScanError('arm %s: %s not found (arm has %d statements)' % (pat, whr, len(st)))
                if mm.group(1) == 'after':
                    return [(arm['body_start'] + st[n - 1][1], '\n' + text)]
                return [(arm['body_start'] + st[n - 1][0], text)]
            if arm['block']:
                if whr == 'start':
                    return [(arm['body_start'] + 1, '\n' + text)]
                return [(arm['body_end'], '\n' + text)]
            # expression arm: wrap in a block
            if whr == 'start':
                return [(arm['body_start'], '{\n' + text), (arm['body_end'], ' }')]
            return [(arm['body_start'], '{ '), (arm['body_end'], ';\n' + text + '}')]
        if a[0] in ('after', 'before'):
            m = re.match(r'(after|before)\s+"(.*)"(?:\s+#(\d+))?\s*$', anchor)
            if not m:
                raise rsx.ScanError('bad text anchor: ' + anchor)
            k = int(m.group(3) or 1)
            got = find_norm(B.text, m.group(2), k)
            if not got:
                raise rsx.ScanError('anchor text lost: %r' % m.group(2))
            st, en, cnt = got
            if not m.group(3) and cnt != 1:
                raise rsx.ScanError('anchor text ambiguous (%d): %r' % (cnt, m.group(2)))
            return [(en, '\n' + text)] if m.group(1) == 'after' else [(st, text)]
        raise rsx.ScanError('unknown anchor ' + anchor)

    def _if(self, B, n):
        if n < 1 or n > len(B.ifs):
            raise rsx.ScanError('if %d not found (function has %d ifs)' % (n, len(B.ifs)))
        return B.ifs[n - 1]

    def _loop(self, B, n):
        if n < 1 or n > len(B.loops):
            raise rsx.ScanError('loop %d not found (function has %d loops)' % (n, len(B.loops)))
        return B.loops[n - 1]

    # ---- template -------------------------------------------------------
    def _read_template(self, path, export_only=False, depth=0, mode=None):
        """-> list of (text, tname, lineno, mode); `//@ include f [mode=M]` is expanded to f's exported region;
        `//@ when M` .. `//@ end-when` sections are kept only when the file is included with that mode."""
        if depth > 4:
            raise BuildError('include depth')
        tname = os.path.basename(path)
        res = []
        exporting = not export_only
        keep = True
        for i, ln in enumerate(open(path, encoding='utf-8').read().split('\n')):
            st = ln.strip()
            if st.startswith('//@ begin-export'):
                exporting = True
                continue
            if st.startswith('//@ end-export'):
                exporting = not export_only
                continue
            if st.startswith('//@ when '):
                keep = (st.split()[2] == mode)
                continue
            if st.startswith('//@ end-when'):
                keep = True
                continue
            if not keep:
                continue
            if st.startswith('//@ include '):
                if exporting:
                    toks = st.split()
                    inc = toks[2]
                    m2 = None
                    for t in toks[3:]:
                        if t.startswith('mode='):
                            m2 = t.split('=', 1)[1]
                    if any(x.split('[')[0] == inc for x in self.includes):
                        continue   # already included (first inclusion wins)
                    self.includes.append(inc + ('[' + m2 + ']' if m2 else ''))
                    res += self._read_template(os.path.join(os.path.dirname(path), inc), True, depth + 1, m2)
                continue
            if exporting:
                res.append((ln, tname, i + 1, mode))
        return res

    def build(self):
        self.includes = []
        tl = self._read_template(self.tpath)
        i = 0
        while i < len(tl):
            ln, tname, L, mode = tl[i]
            st = ln.strip()
            if st.startswith('//@'):
                d = st[3:].strip()
                toks = d.split()
                if toks[0] in ('unit', 'owns'):
                    i += 1
                    continue
                if toks[0] == 'item':
                    opts = dict(t.split('=', 1) for t in toks[4:] if '=' in t)
                    self.emit_item(toks[1], toks[2], toks[3], opts, L)
                    i += 1
                    continue
                if toks[0] == 'const':
                    self.emit_const(toks[1], toks[2])
                    i += 1
                    continue
                if toks[0] == 'viewfn':
                    # //@ viewfn <file> <Type::name> ret=r  ... //@ pre / //@ post / //@ hint ... //@ end
                    f, path = toks[1], toks[2]
                    vopts = dict(t.split('=', 1) for t in toks[3:] if '=' in t)
                    secs = {'pre': '', 'post': '', 'hint': ''}
                    cur = None
                    i += 1
                    while i < len(tl):
                        ln2, tname2, L2, _m2 = tl[i]
                        s2 = ln2.strip()
                        if s2.startswith('//@'):
                            d2 = s2[3:].strip()
                            if d2 == 'end':
                                break
                            if d2 in secs:
                                cur = d2
                            else:
                                raise BuildError('%s:%d unknown viewfn directive %s' % (tname2, L2, d2))
                        elif cur:
                            secs[cur] += ln2 + '\n'
                        i += 1
                    self.emit_viewfn(f, path, vopts, secs, mode, tname, L)
                    i += 1
                    continue
                if toks[0] == 'fn':
                    f, path = toks[1], toks[2]
                    opts = {'rewrite': {}, 'sigsub': [], 'bodysub': [], 'presub': []}
                    for t in toks[3:]:
                        if '=' in t:
                            k, v = t.split('=', 1)
                            opts[k] = v
                    blocks = []
                    i += 1
                    cur = None
                    closed = False
                    while i < len(tl):
                        ln2, tname2, L2, _m2 = tl[i]
                        s2 = ln2.strip()
                        if s2.startswith('//@'):
                            d2 = s2[3:].strip()
                            if d2 == 'end':
                                closed = True
                                break
                            if d2.startswith('rewrite '):
                                t2 = d2.split()
                                opts['rewrite'][t2[1]] = (int(t2[2]) if t2[2] != 'any' else None) if len(t2) > 2 else None
                                cur = None
                            elif d2.startswith('sigsub ') or d2.startswith('bodysub ') or d2.startswith('presub '):
                                mm = re.match(r'(sigsub|bodysub|presub)\s+"(.*)"\s+=>\s+"(.*)"\s*$', d2)
                                if not mm:
                                    raise BuildError('%s:%d bad sub directive' % (tname2, L2))
                                opts[mm.group(1)].append((mm.group(2).replace('\\"', '"'), mm.group(3).replace('\\"', '"')))   # \" inside a part stands for a quote
                                cur = None
                            elif d2.startswith('armsub '):
                                mm = re.match(r'armsub\s+(.*?)\s*\|\s*(.*?)\s*=>\s*(.*)$', d2)
                                if not mm:
                                    raise BuildError('%s:%d bad armsub directive' % (tname2, L2))
                                opts.setdefault('armsub', []).append((mm.group(1), mm.group(2), mm.group(3)))
                                cur = None
                            elif d2.startswith('attrs '):
                                opts['attrs'] = d2[6:].strip()
                                cur = None
                            elif d2 == 'spec':
                                cur = dict(anchor='spec', text='', line=L2, tname=tname2)
                                blocks.append(cur)
                            elif d2.startswith('at '):
                                cur = dict(anchor=d2[3:].strip(), text='', line=L2, tname=tname2)
                                blocks.append(cur)
                            else:
                                raise BuildError('%s:%d unknown directive %s' % (tname2, L2, d2))
                        else:
                            if cur is not None:
                                cur['text'] += ln2 + '\n'
                            elif s2:
                                raise BuildError('%s:%d text outside a block' % (tname2, L2))
                        i += 1
                    if not closed:
                        raise BuildError('%s: fn block not closed' % tname)
                    if mode == 'assume':
                        # the including unit relies on this function's CONTRACT only (proved where the template is the unit's own)
                        self.emit_shim(f, path, opts, blocks, tname, L)
                    else:
                        self.emit_fn(f, path, opts, blocks, L)
                    i += 1
                    continue
                raise BuildError('%s:%d unknown directive %s' % (tname, L, d))
            self.out.add(ln + '\n', lambda k, L=L, tname=tname: ('spec', tname, L + k))
            i += 1
        text = self.out.finish()
        return text

    def meta(self):
        return dict(template=self.tpath, functions=self.functions, items=self.items, includes=getattr(self, 'includes', []), dropped=self.dropped, viewfns=self.viewfns,
                    rewrite_hits=self.rewrite_hits, origin=self.out.origin)


def _keep_lines(s):  # noqa: F811  (also used above)
    return '\n' * s.count('\n')


TRUST_PAT = re.compile(r'(external_body|assume_specification|\bassume\s*\(|\badmit\s*\(|verifier::external\b|external_type_specification|\buninterp\b|exec_allows_no_decreases_clause|verifier::truncate)')


def trust_scan(text, origin):
    """List every trusted construct in the generated unit."""
    res = []
    lines = text.split('\n')
    for i, ln in enumerate(lines):
        code = ln.split('//')[0]
        m = TRUST_PAT.search(code)
        if m:
            # capture a short description: this line + next non-empty line
            nxt = ''
            for j in range(i + 1, min(i + 4, len(lines))):
                if lines[j].strip() and not lines[j].strip().startswith('#['):
                    nxt = lines[j].strip()
                    break
            o = origin[i] if i < len(origin) and origin[i] else ('?', '?', 0)
            res.append(dict(kind=m.group(1).strip(' ('), line=i + 1, text=norm(code)[:160], next=nxt[:160],
                            origin='%s:%s:%s' % o))
    return res


def main():
    import argparse
    ap = argparse.ArgumentParser()
    ap.add_argument('template')
    ap.add_argument('--repo', default='/repo')
    ap.add_argument('-o', '--out', required=True)
    a = ap.parse_args()
    ub = UnitBuilder(a.repo, a.template)
    try:
        text = ub.build()
    except BuildError as e:
        print('BUILD-ERROR: %s' % e)
        sys.exit(2)
    open(a.out, 'w').write(text)
    meta = ub.meta()
    meta['trusted'] = trust_scan(text, ub.out.origin)
    json.dump(meta, open(a.out + '.map.json', 'w'))
    print('wrote %s (%d lines, %d fns)' % (a.out, text.count('\n'), len(ub.functions)))


if __name__ == '__main__':
    main()
