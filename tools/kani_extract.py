#!/usr/bin/env python3
"""kani_extract -- cut small functions verbatim from /repo into kani/src/extracted.rs (no rewrites at all)."""
import os, sys
sys.path.insert(0, os.path.dirname(os.path.abspath(__file__)))
import rsx
REPO = os.environ.get('VERIF_REPO', '/repo')
FNS = [('lib.rs', 'codepoint_len'), ('lib.rs', 'is_special'), ('parse.rs', 'is_digit'), ('parse.rs', 'is_hex_digit'), ('parse.rs', 'is_id_char'),
       ('lib.rs', 'next_utf8'), ('lib.rs', 'prev_codepoint_ix')]
# Kani function contracts attached to the extracted functions (attribute lines only; the function text is untouched)
CONTRACTS = {
    'codepoint_len': '#[cfg_attr(kani, kani::ensures(|r: &usize| *r == if b < 0x80 { 1 } else if b < 0xe0 { 2 } else if b < 0xf0 { 3 } else { 4 }))]',
    'is_special': "#[cfg_attr(kani, kani::ensures(|r: &bool| *r == matches!(c, '\\\\' | '.' | '+' | '*' | '?' | '(' | ')' | '|' | '[' | ']' | '{' | '}' | '^' | '$' | '#')))]",
    'is_digit': "#[cfg_attr(kani, kani::ensures(|r: &bool| *r == (b'0' <= b && b <= b'9')))]",
    'is_hex_digit': "#[cfg_attr(kani, kani::ensures(|r: &bool| *r == ((b'0' <= b && b <= b'9') || (b'a' <= b && b <= b'f') || (b'A' <= b && b <= b'F'))))]",
}
out = ['// GENERATED on every run by tools/kani_extract.py -- function text cut verbatim from %s/src; the #[cfg_attr(kani, ..)] lines are contracts\n' % REPO]
for f, name in FNS:
    s = rsx.Source(os.path.join(REPO, 'src', f))
    fn = s.find_fn(name)
    out.append('// %s:%d\n%spub %s%s\n' % (f, s.line_of(fn.fn_kw), (CONTRACTS[name] + '\n') if name in CONTRACTS else '', fn.signature, fn.body))
open(os.path.join(os.path.dirname(os.path.dirname(os.path.abspath(__file__))), 'kani', 'src', 'extracted.rs'), 'w').write('\n'.join(out))
print('extracted %d functions' % len(FNS))
