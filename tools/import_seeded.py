#!/usr/bin/env python3
"""import_seeded <PROP> -- confirm sub-agent seeded changes in their scratch worktree and copy them to /verif/seeded/.

For each /tmp/wt/<PROP>/_out/<k>/ : (1) clean tree, apply patch.diff, full suite must pass; (2) add the demo, it must
fail; (3) revert src, the demo must pass.  Only confirmed changes are kept (seeded/<PROP>-<k>/).
"""
import json, os, re, shutil, subprocess, sys

def sh(cmd, cwd, timeout=1800):
    p = subprocess.run(cmd, shell=True, cwd=cwd, capture_output=True, text=True, timeout=timeout)
    return p.returncode, p.stdout + p.stderr

def counts(out):
    ok = sum(int(m.group(1)) for m in re.finditer(r'test result: \w+\. (\d+) passed', out))
    bad = sum(int(m.group(1)) for m in re.finditer(r'test result: \w+\. \d+ passed; (\d+) failed', out))
    return ok, bad

def main():
    prop = sys.argv[1]
    offset = int(sys.argv[2]) if len(sys.argv) > 2 else 0
    wt = '/tmp/wt/' + (sys.argv[3] if len(sys.argv) > 3 else prop)   # optional third argument: the worktree's directory name
    outdir = os.path.join(wt, '_out')
    for k in sorted(os.listdir(outdir)):
        d = os.path.join(outdir, k)
        if not os.path.exists(os.path.join(d, 'patch.diff')):
            continue
        dest = '/verif/seeded/%s-%s' % (prop, int(k) + offset if k.isdigit() else k)
        if os.path.exists(dest):
            print(dest, 'already imported'); continue
        meta = json.load(open(os.path.join(d, 'meta.json')))
        demos = [f for f in os.listdir(d) if f.endswith('.rs')]
        if not demos:
            print(k, 'no demo'); continue
        demo = demos[0]
        sh('git checkout -- . && git clean -fdq -e _out', wt)
        rc, o = sh('git apply %s' % os.path.join(d, 'patch.diff'), wt)
        if rc != 0:
            print(k, 'patch does not apply', o[-300:]); continue
        rc, o = sh('cargo test --offline 2>&1', wt)
        ok, bad = counts(o)
        suite = 'passed %d failed %d rc %d' % (ok, bad, rc)
        if rc != 0 or bad or ok < 190:
            print(k, 'suite not green with change:', suite); sh('git checkout -- .', wt); continue
        placement = str(meta.get('demo_placement', ''))
        msrc = re.search(r'src/\w+\.rs', placement)
        if 'unit' in demo and msrc:
            # a #[cfg(test)] module to be appended to a source file (private items)
            target = os.path.join(wt, msrc.group(0))
            patched = open(target).read()
            open(target, 'w').write(patched + '\n' + open(os.path.join(d, demo)).read())
            rc1, o1 = sh('cargo test --offline --lib 2>&1', wt)
            sh('git checkout -- src', wt)
            clean = open(target).read()
            open(target, 'w').write(clean + '\n' + open(os.path.join(d, demo)).read())
            rc2, o2 = sh('cargo test --offline --lib 2>&1', wt)
            sh('git checkout -- src', wt)
        else:
            shutil.copy(os.path.join(d, demo), os.path.join(wt, 'tests', 'seeded_demo.rs'))
            rc1, o1 = sh('cargo test --offline --test seeded_demo 2>&1', wt)
            sh('git checkout -- src', wt)
            rc2, o2 = sh('cargo test --offline --test seeded_demo 2>&1', wt)
            os.remove(os.path.join(wt, 'tests', 'seeded_demo.rs'))
        sh('git checkout -- . && git clean -fdq -e _out', wt)
        if rc1 == 0 or rc2 != 0:
            print(k, 'demo does not discriminate: with change rc=%d, without rc=%d' % (rc1, rc2)); continue
        os.makedirs(dest)
        shutil.copy(os.path.join(d, 'patch.diff'), dest)
        shutil.copy(os.path.join(d, demo), os.path.join(dest, 'seeded_demo.rs'))
        fail_line = [l for l in o1.split('\n') if 'panicked' in l or 'assertion' in l][:2]
        m2 = dict(property=prop, properties=[prop], expect='violation', origin='independent sub-agent (given only the property text and a scratch worktree)',
                  summary=meta.get('summary'), needs_to_manifest=meta.get('needs_to_manifest'), files_touched=meta.get('files_touched'),
                  demo_placement=(placement or 'tests/seeded_demo.rs'),
                  confirmed_by_me=dict(worktree=wt, base=subprocess.run('git rev-parse HEAD', shell=True, cwd=wt, capture_output=True, text=True).stdout.strip(),
                                       commands=['git apply patch.diff', 'cargo test --offline  -> ' + suite, 'cargo test --offline --test seeded_demo (with change) -> FAILS: ' + ' | '.join(fail_line)[:300],
                                                 'git checkout -- src; cargo test --offline --test seeded_demo (without change) -> passes']))
        json.dump(m2, open(os.path.join(dest, 'meta.json'), 'w'), indent=1)
        print(k, 'confirmed ->', dest, '|', meta.get('summary', '')[:100])

main()
