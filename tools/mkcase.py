#!/usr/bin/env python3
"""mkcase <dir> <property[,property]> <violation|pass> <file> <old> <new> [note] -- create a selftest case as a unified diff against /repo."""
import json, os, subprocess, sys, tempfile
d, props, expect, f, old, new = sys.argv[1:7]
note = sys.argv[7] if len(sys.argv) > 7 else ''
src = open(os.path.join('/repo', f)).read()
assert src.count(old) == 1, 'pattern occurs %d times' % src.count(old)
os.makedirs(d, exist_ok=True)
with tempfile.TemporaryDirectory() as t:
    os.makedirs(os.path.join(t, 'a', os.path.dirname(f))); os.makedirs(os.path.join(t, 'b', os.path.dirname(f)))
    open(os.path.join(t, 'a', f), 'w').write(src)
    open(os.path.join(t, 'b', f), 'w').write(src.replace(old, new))
    p = subprocess.run(['diff', '-u', 'a/' + f, 'b/' + f], cwd=t, capture_output=True, text=True)
    open(os.path.join(d, 'patch.diff'), 'w').write(p.stdout)
json.dump(dict(properties=props.split(','), expect=expect, note=note, origin='hand-written self-test (not from a sub-agent)'), open(os.path.join(d, 'meta.json'), 'w'), indent=1)
print('wrote', d)
