"""vcheck -- decide one property: extract units from /repo, run Verus, classify, concretise, write evidence.

Exit codes: 0 = every obligation owned by the property was discharged (KNOWN-FINDING lines may be printed),
            1 = at least one owned obligation failed (VIOLATION line printed),
            2 = undecided (extraction anchor lost, front-end error, resource limit, tool failure) -- never an alarm.
"""
import concurrent.futures as cf
import glob
import hashlib
import json
import os
import re
import subprocess
import sys
import time

HERE = os.path.dirname(os.path.abspath(__file__))
VERIF = os.path.dirname(HERE)
sys.path.insert(0, HERE)
import build_unit  # noqa: E402

REPO = os.environ.get('VERIF_REPO', '/repo')
BUILD = os.environ.get('VERIF_BUILD_DIR') or os.path.join(VERIF, '.build')
CONTRACTS = os.path.join(VERIF, 'contracts')
VERUS = os.environ.get('VERUS', 'verus')

VERIF_KINDS = [
    ('postcondition not satisfied', 'post'),
    ('precondition not satisfied', 'pre'),
    ('precondition not met', 'bounds'),          # e.g. `index in bounds for this access` on a slice / str index
    ('requirement not met', 'pre'),
    ('cannot show this call will not unwind', 'pre'),
    ('invariant not satisfied before loop', 'inv-entry'),
    ('invariant not satisfied at end of loop body', 'inv-step'),
    ('loop invariant not satisfied', 'inv'),
    ('assertion failed', 'assert'),
    ('possible arithmetic underflow/overflow', 'overflow'),
    ('possible division by zero', 'divzero'),
    ('decreases not satisfied', 'decreases'),
    ('could not prove termination', 'decreases'),
    ('unreachable', 'unreachable'),
    ('failed this postcondition', 'post'),
    ('loop ensures not satisfied', 'loop-ensures'),
    ('loop ensures', 'loop-ensures'),
    ('possible bit shift underflow/overflow', 'overflow'),
    ('index out of bounds', 'bounds'),
    ('assume(false)', 'assert'),
]
RLIMIT_MSG = 'esource limit'


def kind_of(msg):
    for k, v in VERIF_KINDS:
        if k in msg:
            return v
    return None


# --------------------------------------------------------------------------
# unit discovery
# --------------------------------------------------------------------------

def unit_info(tpath):
    """Parse directive headers of a template: unit id, owners per function, lemma owners."""
    info = dict(template=tpath, id=None, fns={}, lemma_owners={}, family=None, rlimit=None, includes=[])
    for ln in open(tpath, encoding='utf-8'):
        st = ln.strip()
        if not st.startswith('//@'):
            continue
        toks = st[3:].split()
        if not toks:
            continue
        if toks[0] == 'unit':
            info['id'] = toks[1]
            for t in toks[2:]:
                if t.startswith('family='):
                    info['family'] = t.split('=', 1)[1]
                if t.startswith('rlimit='):
                    info['rlimit'] = t.split('=', 1)[1]
        elif toks[0] == 'fn':
            owners = []
            name = toks[2]
            for t in toks[3:]:
                if t.startswith('owners='):
                    owners = t.split('=', 1)[1].split(',')
                if t.startswith('rename='):
                    name = (toks[2].rsplit('::', 1)[0] + '::' if '::' in toks[2] else '') + t.split('=', 1)[1]
            info['fns'][name] = owners
        elif toks[0] == 'owns':
            info['lemma_owners'][toks[1]] = toks[2].split(',')
        elif toks[0] == 'include':
            info['includes'].append(toks[1])
    return info


def all_units():
    res = {}
    for t in sorted(glob.glob(os.path.join(CONTRACTS, '*.vrs'))):
        ui = unit_info(t)
        if ui['id']:
            res[ui['id']] = ui
    # included templates are verified (and owned) in their own unit; an including unit re-checks them but does not own them
    return res


def units_for(prop):
    res = []
    for uid, u in all_units().items():
        owned = [f for f, o in u['fns'].items() if prop in o] + [f for f, o in u['lemma_owners'].items() if prop in o]
        if owned:
            res.append((uid, u, owned))
    return res


# --------------------------------------------------------------------------
# build + verus
# --------------------------------------------------------------------------

def build(u, twin=False, suffix=''):
    os.makedirs(BUILD, exist_ok=True)
    ub = build_unit.UnitBuilder(REPO, u['template'], twin=twin)
    text = ub.build()
    name = os.path.splitext(os.path.basename(u['template']))[0] + suffix
    path = os.path.join(BUILD, name + '.rs')
    open(path, 'w').write(text)
    meta = ub.meta()
    meta['trusted'] = build_unit.trust_scan(text, ub.out.origin)
    meta['path'] = path
    meta['crate'] = name
    meta['sha256'] = hashlib.sha256(text.encode()).hexdigest()
    return meta


def run_verus(path, rlimit=None, timeout=900, extra=None, multiple_errors=20):
    cmd = [VERUS, os.path.basename(path), '--output-json', '--time', '--multiple-errors', str(multiple_errors)]
    if rlimit:
        cmd += ['--rlimit', str(rlimit)]
    if extra:
        cmd += extra
    cmd += ['--', '--error-format=json']
    t0 = time.time()
    try:
        p = subprocess.run(cmd, cwd=os.path.dirname(path), capture_output=True, text=True, timeout=timeout)
    except subprocess.TimeoutExpired:
        return dict(cmd=' '.join(cmd), timeout=True, wall=time.time() - t0, diags=[], json=None, stderr='timeout')
    js = None
    try:
        js = json.loads(p.stdout)
    except Exception:
        js = None
    diags = []
    for ln in p.stderr.split('\n'):
        ln = ln.strip()
        if ln.startswith('{'):
            try:
                diags.append(json.loads(ln))
            except Exception:
                pass
    return dict(cmd=' '.join(cmd), timeout=False, wall=time.time() - t0, diags=diags, json=js, stderr=p.stderr[-4000:], rc=p.returncode)


def fn_at_line(meta, line):
    for f in meta['functions']:
        if f['out_lines'][0] <= line <= f['out_lines'][1]:
            return f
    return None


def enclosing_name(text_lines, line):
    """name of the (spec/proof/exec) fn enclosing an output line that is not in an extracted fn"""
    for i in range(line - 1, -1, -1):
        m = re.search(r'\bfn\s+([A-Za-z_][A-Za-z0-9_]*)', text_lines[i])
        if m and not text_lines[i].lstrip().startswith('//'):
            return m.group(1)
    return '?'


def def_origin(text_lines, origin, name):
    """template (or repo file) in which the function `name` of the generated unit is defined"""
    short = name.split('::')[-1]
    pat = re.compile(r'\bfn\s+' + re.escape(short) + r'\b')
    for i, ln in enumerate(text_lines):
        if pat.search(ln) and not ln.lstrip().startswith('//'):
            o = origin[i] if i < len(origin) and origin[i] else None
            if o:
                return '%s:%s' % (o[0], o[1])
    return '?'


def analyse(u, meta, vr, partial=False):
    """-> dict(status: pass|fail|undecided, reason, failures: [...], functions: [...], stats)"""
    res = dict(status='pass', reason='', failures=[], functions=[], verified=0, errors=0, smt_ms=0, total_ms=0)
    if vr['timeout']:
        return dict(res, status='undecided', reason='verus timeout')
    js = vr['json']
    if js is None:
        return dict(res, status='undecided', reason='verus produced no JSON: ' + vr['stderr'][-300:])
    vres = js.get('verification-results', {})
    res['verified'] = vres.get('verified', 0)
    res['errors'] = vres.get('errors', 0)
    text_lines = open(meta['path']).read().split('\n')
    origin = meta['origin']
    crate = meta['crate']
    # per-function breakdown
    tm = js.get('times-ms', {})
    res['total_ms'] = tm.get('total', 0)
    fb = []
    for mod in tm.get('smt', {}).get('smt-run-module-times', []):
        fb += mod.get('function-breakdown', [])
    res['smt_ms'] = tm.get('smt', {}).get('smt-run', 0)
    for f in fb:
        nm = f['function']
        if nm.startswith(crate + '::'):
            nm = nm[len(crate) + 2:]
        res['functions'].append(dict(name=nm, mode=f.get('mode:', ''), ms=f.get('time', 0), rlimit=f.get('rlimit', 0), success=f.get('success', False),
                                     defined_in=def_origin(text_lines, origin, nm)))
    # diagnostics
    front_end = []
    rlimit_fns = set()
    for d in vr['diags']:
        if d.get('level') != 'error':
            continue
        msg = d.get('message', '')
        if msg.startswith('aborting due to'):
            continue
        spans = d.get('spans', [])
        prim = [s for s in spans if s.get('is_primary')] or spans
        in_unit = [s for s in prim if s.get('file_name', '').endswith(os.path.basename(meta['path']))]
        line = in_unit[0]['line_start'] if in_unit else (prim[0]['line_start'] if prim else 0)
        k = kind_of(msg)
        labels = [s.get('label') or '' for s in spans]
        if k is None and any(kind_of(l) for l in labels if l):
            k = [kind_of(l) for l in labels if l and kind_of(l)][0]
        if RLIMIT_MSG in msg:
            f = fn_at_line(meta, line)
            rlimit_fns.add(f['path'] if f else enclosing_name(text_lines, line))
            continue
        if k is None:
            front_end.append('%s (line %d)' % (msg[:200], line))
            continue
        f = fn_at_line(meta, line)
        o = origin[line - 1] if 0 < line <= len(origin) and origin[line - 1] else ('?', '?', 0)
        sec = []
        for s in spans:
            if s is prim[0] if prim else False:
                continue
            l2 = s['line_start']
            o2 = origin[l2 - 1] if 0 < l2 <= len(origin) and origin[l2 - 1] and s.get('file_name', '').endswith(os.path.basename(meta['path'])) else None
            if o2:
                sec.append(dict(origin='%s:%s:%s' % tuple(o2), label=s.get('label') or '', text=(s.get('text') or [{}])[0].get('text', '').strip()[:160]))
        fail = dict(kind=k, message=msg, unit_line=line, origin='%s:%s:%s' % tuple(o),
                    text=text_lines[line - 1].strip()[:200] if 0 < line <= len(text_lines) else '',
                    function=(f['path'] if f else None), lemma=(None if f else enclosing_name(text_lines, line)),
                    secondary=sec, rendered=d.get('rendered', '')[:1500])
        fail['obligation'] = '%s.%s.%s@%s' % (u['id'], fail['function'] or fail['lemma'], k, fail['origin'].split(':', 1)[1] if fail['origin'].startswith('spec') else fail['origin'].split(':', 1)[1])
        res['failures'].append(fail)
    if front_end and not res['failures']:
        return dict(res, status='undecided', reason='verus front-end error: ' + '; '.join(front_end[:3]))
    if vres.get('encountered-vir-error'):
        return dict(res, status='undecided', reason='verus VIR error: ' + '; '.join(front_end[:3]) + vr['stderr'][-300:])
    if res['failures']:
        res['status'] = 'fail'
    elif rlimit_fns:
        return dict(res, status='undecided', reason='rlimit exceeded in ' + ', '.join(sorted(rlimit_fns)))
    elif not vres.get('success'):
        return dict(res, status='undecided', reason='verus reported failure without a classified diagnostic: ' + vr['stderr'][-300:])
    # expected functions present?
    names = set(f['name'] for f in res['functions'])
    missing = [f['path'] for f in meta['functions'] if f['contracted'] and f['path'] not in names and f['name'] not in names
               and not any(n.endswith('::' + f['name']) for n in names)]
    if missing and res['status'] == 'pass' and not partial:
        return dict(res, status='undecided', reason='functions missing from the verifier output: ' + ', '.join(missing))
    res['rlimit_fns'] = sorted(rlimit_fns)
    return res


def check_twin(u, meta_t, vr):
    """Every contracted extracted fn must FAIL its `assert(false)` twin. Returns list of vacuous fns."""
    failed_lines = set()
    for d in vr['diags']:
        if d.get('level') == 'error' and 'assertion failed' in d.get('message', ''):
            for s in d.get('spans', []):
                failed_lines.add(s['line_start'])
    text_lines = open(meta_t['path']).read().split('\n')
    vac = []
    n = 0
    for f in meta_t['functions']:
        if not f['contracted']:
            continue
        twin_line = None
        for L in range(f['out_lines'][0], f['out_lines'][1] + 1):
            if 'TWIN-VACUITY' in text_lines[L - 1]:
                twin_line = L
                break
        if twin_line is None:
            vac.append(f['path'] + ' (no twin line)')
            continue
        n += 1
        if twin_line not in failed_lines:
            vac.append(f['path'])
    return n, vac
