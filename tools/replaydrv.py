"""replaydrv -- concretisation and replay through the real crate (never the deciding step).

Builds /verif/replay (path dependency on /repo, hooks on) into /verif/.build/target and drives it.
"""
import json
import os
import re
import subprocess
import time

HERE = os.path.dirname(os.path.abspath(__file__))
VERIF = os.path.dirname(HERE)
REPO = os.environ.get('VERIF_REPO', '/repo')
TARGET = os.path.join(VERIF, '.build', 'target')
BIN = os.path.join(TARGET, 'release', 'fr-replay')
KF_FILE = os.path.join(VERIF, 'known-findings.txt')

_built = {}

FAMILY_BOUNDS = {
    'state_ops': 'all sequences of <= 8 operations over {push, pop, save(3 slots x 3 values), enter, commit, spush, spop} (iterative deepening for the first half of the time budget), then seeded long random sequences (200-1700 operations over 3 / 40 / 300 slots, with bursts that save every slot and re-save a prefix inside one level)',
    'iter': '~65 patterns x ~35 texts x backtrack limits {default,1,3,30}: find_iter / captures_iter / split / splitn(n = 0..pieces+1) vs the reference model driven by the real single-shot search; then, for the rest of the budget, seeded generated patterns (the generator of the reference matcher, each also with \\G alternatives) x 14 short texts x limits {default,3}',
    'search': '~80 corpus patterns + 462 group-metadata patterns (6 group forms x 11 quantifiers incl. {0} x 7 contexts, delegated and VM-compiled) x ~40 texts x every char-boundary start offset: entry-point coherence (also under backtrack limits 1, 3, 30: is_match / find / captures agree on Ok / Err), offset validity, group metadata; then seeded generated patterns (with \\G variants) x 14 short texts for the rest of the budget; each pattern is also built through RegexBuilder with delegate_size_limit / delegate_dfa_size_limit set: same captures_len, names and captures as Regex::new',
    'analyze': '~2000 patterns from a 3-level grammar (incl. huge repeat counts) : Info facts vs match-length sets enumerated up to 14 characters',
    'parse': 'Regex::new under catch_unwind with an allocation tracker: (1) deep-nesting patterns (16 opening constructs x depth 100 / 300 / 200 000 x closed / unclosed) and 6 long FLAT patterns (60 000 alternatives / pieces / repeats at one level), each in a child process (a native stack overflow kills the child); (1b) 13 hosts x 19 bodies of literal pieces (plain characters in nested non-capturing / flag groups as the whole body of look-arounds, atomic groups, repeats, conditionals); (2) seeded random sequences of 4..8 tokens for a quarter of the budget; (3) ALL sequences of <= 3 tokens over a 110-token vocabulary of syntax fragments (1 343 210 patterns; incl. escape and group heads cut off before their argument): no panic, no abort, parse-error position <= length, back-reference numbers < length, no single allocation > 16 MiB',
    'expand': 'all templates of length <= 6 (quick: as many as fit in the time budget, lengths ascending; >= all of length <= 5) over {$ { } \\ g < > 0 1 9 x _ e-acute space - superscript-two} x 4 regex/captures setups (named, numbered, unmatched groups, a group whose name is a number other than its index) x both expanders: expansion, append_expansion, escape round trip, check, Captures::expand',
    'replace': '~70 patterns x ~35 texts x backtrack limits {default,1,3} x limits 0..3 x 12 templates + NoExpand + closures; equality of template-without-$ / NoExpand / closure results INCLUDING whether the result is Err (patterns whose (n+1)-th search exceeds the limit); then seeded generated patterns (with \\G variants) x 14 short texts for the rest of the budget; templates include `$` before non-ASCII letters / digits, `$-1`, `$-`, `$ $`',
    'refsem': 'independent reference matcher (ordered backtracking over its own syntax tree) vs Regex::captures_from_pos, overall span and every group, at every char-boundary start offset: ~250 fixed shapes (repeats of hard bodies in tail / non-tail position, every empty / easy-with-choices / hard combination of conditional branches) then pseudo-random patterns of depth 2..4 (seeded; as many as fit in the budget, ~1000 patterns/s) x all 781 texts over {a,b,c,e-acute,-} of length <= 4 plus 5 longer ones; left out: unbounded repeats of empty-matchable bodies (F1), conditionals below a commit (KF2), \\K in look-arounds, back-references to open groups',
    'progwf': 'executable rendering of prog_wf (the precondition of vm::run, proved for compile in U-EMITWF; this is the bounded cross-check of that proof on the code rustc compiles: targets inside the program, no fall-through off the end, slots < n_saves, counter slots disjoint from position slots) on the programs the real analyze + compile emit for the corpus (~80), the 462 group-metadata patterns, the ~250 fixed reference-matcher shapes and seeded pseudo-random reference-matcher patterns (~12 000 / s), each wrapped as Regex::new wraps it',
    'quote': 'all strings of length <= 3 over a 28-symbol alphabet (every meta-character, 2-4 byte characters) x 5 host patterns x 7 texts; plus 6 anchored hosts (\\A..\\z also under (?m), ^..$, a look-behind anchor, a back-reference host) that must match a text iff it IS the string, on the texts above and the string followed / preceded by a newline',
}


def build_replay():
    """(ok, message). Rebuilds against the current working tree of the repo (cargo tracks the path dependency)."""
    global BIN
    if 'r' in _built:
        return _built['r']
    env = dict(os.environ, RUSTFLAGS='--cfg fancy_regex_verif', CARGO_NET_OFFLINE='true')
    crate = os.path.join(VERIF, 'replay')
    target = TARGET
    if REPO != '/repo':
        # self-test on a scratch copy: same crate, path dependency redirected, separate target dir
        import shutil
        crate = os.path.join(VERIF, '.build', 'replay_alt')
        shutil.rmtree(crate, ignore_errors=True)
        shutil.copytree(os.path.join(VERIF, 'replay'), crate, ignore=shutil.ignore_patterns('out', 'target'))
        mf = open(os.path.join(crate, 'Cargo.toml')).read().replace('path = "/repo"', 'path = "%s"' % REPO)
        open(os.path.join(crate, 'Cargo.toml'), 'w').write(mf)
        target = os.path.join(VERIF, '.build', 'target_alt')
        BIN = os.path.join(target, 'release', 'fr-replay')
    cmd = ['cargo', 'build', '--release', '--offline', '--manifest-path', os.path.join(crate, 'Cargo.toml'), '--target-dir', target]
    p = subprocess.run(cmd, capture_output=True, text=True, env=env)
    ok = p.returncode == 0 and os.path.exists(BIN)
    _built['r'] = (ok, p.stderr[-1500:])
    return _built['r']


def run_replay(args, timeout=900):
    ok, msg = build_replay()
    if not ok:
        return None, 'replay crate does not build against the current tree: ' + msg[-400:]
    try:
        p = subprocess.run([BIN] + args, capture_output=True, text=True, timeout=timeout)
    except subprocess.TimeoutExpired:
        return None, 'replay timeout'
    out = None
    for ln in p.stdout.strip().split('\n')[::-1]:
        try:
            out = json.loads(ln)
            break
        except Exception:
            continue
    if out is None:
        # a panic that escaped catch_unwind (abort) is itself a failing behaviour
        return dict(crashed=True, rc=p.returncode, stderr=p.stderr[-600:]), None
    return out, None


def concretise(prop, f, family, tier, seed):
    """After a failed obligation: look for a failing input on the real crate. -> (replay_path, found)"""
    outdir = os.environ.get('VERIF_REPLAY_OUT') or os.path.join(VERIF, 'replay', 'out')
    os.makedirs(outdir, exist_ok=True)
    obl = f['obligation']
    safe = re.sub(r'[^A-Za-z0-9_.@-]+', '_', obl)[:120]
    path = os.path.join(outdir, '%s-%s.json' % (prop, safe))
    rec = dict(property=prop, obligation=obl, kind=f.get('kind'), origin=f.get('origin'), text=f.get('text'),
               secondary=f.get('secondary'), verifier_output=f.get('rendered', ''), family=family, witness=None,
               note='obligation discharged on the pinned tree, failing on the current tree')
    found = False
    if f.get('witness') is not None:
        rec['witness'] = f['witness']
        rec['detail'] = f.get('detail')
        found = True
    elif family and not os.environ.get('VERIF_NO_CONCRETISE'):
        budget = 20 if tier == 'quick' else 300
        for fam in family.split(','):
            out, err = run_replay(['search', fam, '--budget-s', str(budget), '--seed', str(seed)], timeout=budget + 120)
            if err:
                rec['concretisation_error'] = err
                continue
            if out.get('crashed'):
                rec['concretisation_error'] = 'search process crashed: ' + out.get('stderr', '')
                continue
            rec.setdefault('search', []).append(dict(family=fam, evaluations=out.get('evaluations'), found=out.get('found')))
            if out.get('found'):
                rec['family'] = fam
                rec['witness'] = out['witness']
                rec['detail'] = out.get('detail')
                found = True
                break
    if not found:
        rec['result'] = 'no-failing-input-found'
    json.dump(rec, open(path, 'w'), indent=1)
    return path, found


def replay_file(prop, path):
    rec = json.load(open(path))
    if rec.get('witness') is None:
        print('replay file carries no concrete input (obligation %s); re-run ./check %s' % (rec.get('obligation'), prop))
        return 2
    out, err = run_replay(['run', rec['family'], json.dumps(rec['witness'])])
    if err:
        print('UNDECIDED property=%s reason=%s' % (prop, err))
        return 2
    if out.get('crashed') or out.get('fails'):
        print('VIOLATION property=%s replay=%s' % (prop, path))
        print(json.dumps(out))
        return 1
    print('replay passes on the current tree: ' + json.dumps(rec['witness']))
    return 0


def parse_kf():
    res = []
    if not os.path.exists(KF_FILE):
        return res
    for ln in open(KF_FILE):
        ln = ln.strip()
        if not ln or ln.startswith('#'):
            continue
        m = re.match(r'(finding|fixed):\s+property=(C\d+)\s+(.*)$', ln)
        if not m:
            continue
        kind, prop, rest = m.groups()
        d = dict(kind=kind, property=prop, raw=rest)
        if kind == 'finding':
            mm = re.match(r'family=(\S+)\s+witness=(\{.*?\})\s+--\s+(.*)$', rest)
            if mm:
                d['family'] = mm.group(1)
                d['witness'] = json.loads(mm.group(2))
                d['what'] = mm.group(3)
        res.append(d)
    return res


def known_findings(prop, tier):
    """Replay each listed finding of this property on the real crate.
    -> (lines to print, new violations).  A listed finding that still fails prints KNOWN-FINDING; one that no
    longer fails prints nothing.  Nothing is ever added to the file here."""
    lines = []
    if os.environ.get('VERIF_NO_CONCRETISE'):
        return lines, []
    for d in parse_kf():
        if d['kind'] != 'finding' or d['property'] != prop or 'witness' not in d:
            continue
        out, err = run_replay(['run', d['family'], json.dumps(d['witness'])])
        if err:
            lines.append('NOTE: known finding could not be replayed (%s): %s' % (err[:100], d['what']))
            continue
        if out.get('crashed') or out.get('fails'):
            lines.append('KNOWN-FINDING: property=%s %s [witness %s]' % (prop, d['what'], json.dumps(d['witness'])))
    return lines, []
